(* C12 — two-step, seven-day time-locked admin hand-over (both contracts). *)
From MW Require Import Staking Treasury.
From MW.Proofs Require Import Tactics Handlers Authz Ownership.
From MW.Gen Require Import Consts.
Open Scope N_scope.

(* the delay in both sources (regenerated from the two execute.rs on every run) is seven days, and is
   the delay of the machine the contracts are proved to refine *)
Theorem C12_delay_is_7_days :
  src_staking_owner_delay_s = 604800 /\ src_treasury_owner_delay_s = 604800
  /\ OWNER_DELAY_S = DELAY /\ T_OWNER_DELAY_S = DELAY /\ DELAY = 7 * 24 * 60 * 60.
Proof. repeat split; reflexivity. Qed.
Print Assumptions C12_delay_is_7_days.

(* both contracts refine the abstract hand-over machine: the three ownership messages act exactly as
   [own_step] on (admin, nominee, earliest acceptance time); no other message touches those three *)
Theorem C12_staking_refines : forall va dv av s e i m s' r,
  execute va dv av s e i m = Ok (s', r) ->
  match own_op_of m with
  | Some op => own_step av (now_s e) (sender i) (own_of s) op = Some (own_of s')
  | None => own_of s' = own_of s
  end.
Proof. exact staking_refines. Qed.
Print Assumptions C12_staking_refines.

Theorem C12_staking_reply_sudo_keep_owner :
  (forall s id rr s' r, reply s id rr = Ok (s', r) -> own_of s' = own_of s)
  /\ (forall s m s' r, sudo s m = Ok (s', r) -> own_of s' = own_of s).
Proof. split; [exact reply_keeps_owner | exact sudo_keeps_owner]. Qed.
Print Assumptions C12_staking_reply_sudo_keep_owner.

Theorem C12_treasury_refines : forall va av s e who m s' r,
  texecute va av s e who m = Ok (s', r) ->
  match town_op_of m with
  | Some op => own_step av (t_now_s e) who (town_of s) op = Some (town_of s')
  | None => town_of s' = town_of s
  end.
Proof. exact treasury_refines. Qed.
Print Assumptions C12_treasury_refines.

(* the machine, over every history of nominate / revoke / accept / other events by any principals at any
   times: whenever the admin differs after an event, that event is an Accept by the account of the most
   recent nomination that was not revoked, replaced or consumed (the ghost), at least seven days after that
   nomination; it makes that account the admin and consumes the nomination *)
Theorem C12_admin_changes_only_by_accept : forall av x0 evs ev,
  o_pending x0 = None ->
  let xg := run av x0 evs in
  o_admin (fst (step av xg ev)) <> o_admin (fst xg) ->
  ev_op ev = Some Accept
  /\ exists t, snd xg = Some (ev_who ev, t) /\ t + 604800 <= ev_time ev
     /\ o_admin (fst (step av xg ev)) = Some (ev_who ev)
     /\ o_pending (fst (step av xg ev)) = None /\ snd (step av xg ev) = None.
Proof. exact admin_changes_only_by_accept. Qed.
Print Assumptions C12_admin_changes_only_by_accept.

(* what the ghost is: set by a successful nomination (which only the current admin can make), cleared by a
   successful revocation (admin only) and by acceptance; a refused operation changes nothing *)
Theorem C12_ghost_is_latest_nomination : forall av,
  (forall xg ev o x', ev_op ev = Some (Nominate o) -> own_step av (ev_time ev) (ev_who ev) (fst xg) (Nominate o) = Some x' ->
     snd (step av xg ev) = Some (o, ev_time ev) /\ o_admin (fst xg) = Some (ev_who ev))
  /\ (forall xg ev x', ev_op ev = Some Revoke -> own_step av (ev_time ev) (ev_who ev) (fst xg) Revoke = Some x' ->
     snd (step av xg ev) = None /\ o_admin (fst xg) = Some (ev_who ev))
  /\ (forall xg ev op, ev_op ev = Some op -> own_step av (ev_time ev) (ev_who ev) (fst xg) op = None -> step av xg ev = xg).
Proof. intros av. split; [exact (ghost_nominate av) | split; [exact (ghost_revoke av) | exact (ghost_refused av)]]. Qed.
Print Assumptions C12_ghost_is_latest_nomination.

Theorem C12_accept_boundary : forall a p t,
  let x := {| o_admin := a; o_pending := Some p; o_min := Some (t + 604800) |} in
  own_step (fun _ => true) (t + 604800 - 1) p x Accept = None
  /\ own_step (fun _ => true) (t + 604800) p x Accept = Some {| o_admin := Some p; o_pending := None; o_min := Some (t + 604800) |}.
Proof. exact (accept_boundary (fun _ => true)). Qed.
Print Assumptions C12_accept_boundary.

Theorem C12_former_admin_loses_rights : forall va dv av s e i s' r old,
  execute va dv av s e i AcceptOwnership = Ok (s', r) -> admin s = Some old -> old <> sender i ->
  forall e' fs m s'' r'',
    match m with
    | AddValidator _ | RemoveValidator _ | UpdateConfig _ _ _ _ _ | TransferOwnership _
    | RevokeOwnershipTransfer | ResumeContract _ _ _ | FeeWithdraw _
    | RecoverPendingIbcTransfers _ (Some _) _ => True
    | _ => False
    end ->
    execute va dv av s' e' {| sender := old; funds := fs |} m <> Ok (s'', r'').
Proof. exact former_admin_loses_rights. Qed.
Print Assumptions C12_former_admin_loses_rights.

(* non-vacuity: nominate at 100, refused one second early, accepted on time *)
Example C12_example :
  let av := fun _ : string => true in
  let x0 := {| o_admin := Some "a"%string; o_pending := None; o_min := None |} in
  let evs := [ {| ev_time := 100; ev_who := "a"%string; ev_op := Some (Nominate "b"%string) |};
               {| ev_time := 100 + 604799; ev_who := "b"%string; ev_op := Some Accept |} ] in
  o_admin (fst (run av x0 evs)) = Some "a"%string
  /\ o_admin (fst (step av (run av x0 evs) {| ev_time := 100 + 604800; ev_who := "b"%string; ev_op := Some Accept |})) = Some "b"%string.
Proof. vm_compute. split; reflexivity. Qed.
