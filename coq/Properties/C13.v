(* C13 — treasury: trader-only swaps on allow-listed routes; admin-only spending. *)
From MW Require Import Treasury.
From MW.Proofs Require Import Tactics TreasuryProofs.
From MW.Gen Require Import Consts.
Open Scope N_scope.

Theorem C13_prefixes :
  src_treasury_local_prefix = T_LOCAL_PREFIX /\ src_treasury_remote_prefix = T_REMOTE_PREFIX
  /\ src_treasury_ibc_timeout_ns = T_IBC_TIMEOUT_NS.
Proof. repeat split; reflexivity. Qed.
Print Assumptions C13_prefixes.

(* route equality is equality of the hop lists: same hops, same order, same pools, same denoms *)
Theorem C13_route_identity : forall allowed r, route_allowed allowed r = true <-> r <> [] /\ In r allowed.
Proof. exact route_allowed_spec. Qed.
Print Assumptions C13_route_identity.

Theorem C13_swap_in : forall va av s e who routes tin min_out s' r,
  texecute va av s e who (TSwapExactAmountIn routes tin min_out) = Ok (s', r) ->
  who = t_trader s /\ routes <> [] /\ In routes (t_routes s)
  /\ (exists h rest, routes = h :: rest /\ h_in h = c_denom tin)
  /\ s' = s /\ r = [plain (ASwapIn (t_self e) routes tin min_out)].
Proof. exact swap_in_spec. Qed.
Print Assumptions C13_swap_in.

Theorem C13_swap_out : forall va av s e who routes tout max_in s' r,
  texecute va av s e who (TSwapExactAmountOut routes tout max_in) = Ok (s', r) ->
  who = t_trader s /\ routes <> [] /\ In routes (t_routes s)
  /\ (exists h rest, rev routes = h :: rest /\ h_out h = c_denom tout)
  /\ s' = s /\ r = [plain (ASwapOut (t_self e) routes tout max_in)].
Proof. exact swap_out_spec. Qed.
Print Assumptions C13_swap_out.

Theorem C13_unlisted_route_refused : forall va av s e who routes c lim,
  ~ In routes (t_routes s) ->
  (forall s' r, texecute va av s e who (TSwapExactAmountIn routes c lim) <> Ok (s', r))
  /\ (forall s' r, texecute va av s e who (TSwapExactAmountOut routes c lim) <> Ok (s', r)).
Proof. exact unlisted_route_refused. Qed.
Print Assumptions C13_unlisted_route_refused.

(* the emitted message: the treasury as sender, the routes as (pool, token_out) resp. (pool, token_in) pairs
   in the same order, the coin and the limit -- as protobuf fields 1..4 of the Osmosis poolmanager messages *)
Theorem C13_swap_in_bytes : forall b sender routes tin min_out,
  render b (ASwapIn sender routes tin min_out) =
  CStargate "/osmosis.poolmanager.v1beta1.MsgSwapExactAmountIn"
    (f_string 1 sender
     ++ concat_str (map (fun h => f_msg 2 (f_uint 1 (h_pool h) ++ f_string 2 (h_out h))) routes)
     ++ f_msg 3 (enc_coin tin) ++ f_string 4 (N_to_string min_out))%string.
Proof. reflexivity. Qed.
Print Assumptions C13_swap_in_bytes.
Theorem C13_swap_out_bytes : forall b sender routes tout max_in,
  render b (ASwapOut sender routes tout max_in) =
  CStargate "/osmosis.poolmanager.v1beta1.MsgSwapExactAmountOut"
    (f_string 1 sender
     ++ concat_str (map (fun h => f_msg 2 (f_uint 1 (h_pool h) ++ f_string 2 (h_in h))) routes)
     ++ f_string 3 (N_to_string max_in) ++ f_msg 4 (enc_coin tout))%string.
Proof. reflexivity. Qed.
Print Assumptions C13_swap_out_bytes.

Theorem C13_spend : forall va av s e who amount receiver channel s' r,
  texecute va av s e who (TSpendFunds amount receiver channel) = Ok (s', r) ->
  t_admin s = Some who /\ s' = s
  /\ match channel with
     | None => va receiver "osmo"%string = true /\ r = [plain (ABankSend receiver amount)]
     | Some ch => va receiver "celestia"%string = true
                  /\ r = [plain (ATransfer ch receiver amount (t_self e) (t_now_ns e + T_IBC_TIMEOUT_NS) (ibc_memo (t_self e)))]
     end.
Proof. exact spend_spec. Qed.
Print Assumptions C13_spend.

Theorem C13_update_config : forall va av s e who trader routes s' r,
  texecute va av s e who (TUpdateConfig trader routes) = Ok (s', r) ->
  t_admin s = Some who /\ r = []
  /\ t_admin s' = t_admin s /\ t_pending_owner s' = t_pending_owner s /\ t_owner_min_time s' = t_owner_min_time s
  /\ t_version s' = t_version s
  /\ match trader with Some x => av x = true /\ t_trader s' = x | None => t_trader s' = t_trader s end
  /\ match routes with Some x => t_routes s' = x | None => t_routes s' = t_routes s end.
Proof. exact tupdate_spec. Qed.
Print Assumptions C13_update_config.

Example C13_example :
  let h1 := {| h_pool := 1; h_in := "a"; h_out := "b" |} in let h2 := {| h_pool := 2; h_in := "b"; h_out := "c" |} in
  route_allowed [[h1; h2]] [h1; h2] = true /\ route_allowed [[h1; h2]] [h1] = false
  /\ route_allowed [[h1; h2]] [h2; h1] = false /\ route_allowed [[h1]; [h2]] [h1; h2] = false.
Proof. vm_compute. repeat split; reflexivity. Qed.
