(* C02 — the contract-held staked asset equals what it owes (whole histories).
   The chain side is a ghost wallet: a successful call credits the coins it is paid (LiquidStake, ReceiveRewards,
   ReceiveUnstakedTokens), debits every coin its messages send (bank sends and IBC transfers), and an error
   acknowledgement / timeout of a recorded in-flight packet refunds exactly its recorded amount.
   Environment assumptions, per call (ok_call): a success acknowledgement only ever arrives for an in-flight
   packet; packet sequences are fresh; an admin-forced recovery selects refunded packets only; UpdateConfig does
   not re-configure the staked-asset denom.  No donations (coins sent outside these three payments).
   At the end of the file the same equations hold along every history of the world model of World.v, where the first two
   assumptions are no longer assumed but proved (C02_world_solvency). *)
From MW Require Import Base Wire Staking World.
From MW.Proofs Require Import Tactics Handlers Maps Invariant Recovery Ledger Solvency WorldProofs WorldSolvency.
From MW.Properties Require C08.
From MW.Properties Require Import C01.
Open Scope N_scope.

(* balance + swept + paid-out = amounts received for finished batches + retained fees + refunded transfers
   awaiting re-send; equivalently  balance = (received - paid) + fees + refundable - swept.
   The `swept` term is the recorded finding F4 (see C02_sweep_refuted): it is 0 unless a LiquidStake finds
   LST = 0 with staked > 0, which requires a ResumeContract(staked > 0, LST = 0). *)
Theorem C02_balance : forall va dv av sw cs,
  Solvent sw -> Solvency.all_ok va dv av sw cs ->
  let '(s, w) := fold_left (Solvency.wstep va dv av) cs sw in
  (w_balD w + Z.of_N (w_swept w) + Z.of_N (w_paid w)
   = Z.of_N (received_total s) + Z.of_N (total_fees (st s)) + Z.of_N (refundable_total (D_of s) s))%Z.
Proof.
  intros va dv av sw cs H Hok. pose proof (solvency va dv av sw cs H Hok) as HS.
  destruct (fold_left (Solvency.wstep va dv av) cs sw) as [s w]. destruct HS as (_ & _ & _ & _ & E & _). exact E.
Qed.
Print Assumptions C02_balance.

Theorem C02_init : forall va e i m s r,
  instantiate va e i m = Ok (s, r) -> D_of s <> L_of s ->
  Solvent (s, {| w_balD := 0; w_balL := 0; w_swept := 0; w_paid := 0 |}).
Proof. exact solvent_init. Qed.
Print Assumptions C02_init.

(* every payout is covered: one call's outflow of the staked asset is matched by the drop of what is owed *)
Theorem C02_call : forall va dv av s c,
  I_batches s -> I_packets s -> I_status s -> D_of s <> L_of s -> ok_call s c ->
  let s' := fst (apply_call va dv av s c) in
  let r := snd (apply_call va dv av s c) in
  D_of s' = D_of s /\ L_of s' = L_of s
  /\ solv_D s s' r (in_D va dv av s c) (refund (D_of s) s c) (swept_delta va dv av s c) (paid_delta va dv av s c)
  /\ solv_L s s' r (in_L va dv av s c) (refund (L_of s) s c).
Proof. exact call_solvency. Qed.
Print Assumptions C02_call.

(* the finding: after ResumeContract(staked = 100, LST = 0) a LiquidStake of 50 adds the 100 to the fee balance,
   although the contract holds nothing: balance 0, owed 100 *)
Definition kf_store : store := set_cfg C08.ex_store (set_stopped (cfg C08.ex_store) false).
Definition kf_calls : list call :=
  [ CExec {| now_ns := 0; txi := None; self := "me" |} {| sender := "admin"; funds := [] |} (ResumeContract 100 0 0);
    CExec {| now_ns := 5; txi := None; self := "me" |}
          {| sender := "osmo123456789012345678901234567890123456789"; funds := [{| c_denom := "ibc/x"; c_amount := 50 |}] |}
          (LiquidStake None None None) ].
Theorem C02_sweep_refuted :
  let va := fun _ _ => true in let dv := fun _ _ _ => @None string in let av := fun _ : string => true in
  let '(s, w) := fold_left (Solvency.wstep va dv av) kf_calls (kf_store, {| w_balD := 0; w_balL := 0; w_swept := 0; w_paid := 0 |}) in
  w_balD w = 0%Z /\ total_fees (st s) = 100 /\ w_swept w = 100 /\ received_total s = 0 /\ refundable_total (D_of s) s = 0.
Proof. vm_compute. repeat split; reflexivity. Qed.
Print Assumptions C02_sweep_refuted.

(* without such a resume there is nothing to sweep: swept_delta is 0 whenever LST = 0 implies staked = 0 *)
Theorem C02_no_sweep : forall va dv av s c,
  (total_lst (st s) = 0 -> total_native (st s) = 0) -> swept_delta va dv av s c = 0.
Proof.
  intros va dv av s c H. unfold swept_delta. destruct (negb _); [reflexivity|]. destruct c as [e i m| |]; try reflexivity.
  destruct m; try reflexivity. unfold sweeps. destruct (total_lst (st s) =? 0) eqn:E; [| reflexivity].
  assert (total_lst (st s) = 0) by lia. rewrite (H H0). reflexivity.
Qed.
Print Assumptions C02_no_sweep.

(* --- the world (World.v): transactions with their replies, relays with any outcome in any order, stray callbacks,
   rolled-back transactions --- *)
(* Along every such history the ghost wallet stays solvent: its staked-asset balance (plus what was swept, F4, and paid)
   equals received-and-unwithdrawn + retained fees + refunded transfers awaiting re-send, and its LST balance equals the
   pending batch + refunded LST deliveries. What remains assumed per transaction (exec_ok): the channel and the
   staked-asset denom are not reconfigured and an admin-forced recovery names refunded transfers only. That a success
   acknowledgement reaches only a transfer still in flight and that packet sequences are fresh -- assumptions of
   C02_balance -- are consequences of the world invariant here. *)
Theorem C02_world_solvency : forall va dv av w wal evs,
  W_inv w -> Solvent (w_store w, wal) -> events_ok va dv av (exec_ok va dv av) w evs ->
  Solvent (w_store (wrun va dv av w evs), wwallet va dv av w wal evs).
Proof. exact world_solvency. Qed.
Print Assumptions C02_world_solvency.

Theorem C02_world_solvency_from_instantiate : forall va dv av e i m s r evs,
  instantiate va e i m = Ok (s, r) -> D_of s <> L_of s -> events_ok va dv av (exec_ok va dv av) (world0 s) evs ->
  Solvent (w_store (wrun va dv av (world0 s) evs),
           wwallet va dv av (world0 s) {| w_balD := 0; w_balL := 0; w_swept := 0; w_paid := 0 |} evs).
Proof.
  intros va dv av e i m s r evs H Hne Hok. apply world_solvency; [eapply world0_inv; exact H | | exact Hok].
  cbn [world0 w_store]. eapply solvent_init; eassumption.
Qed.
Print Assumptions C02_world_solvency_from_instantiate.

(* the history of C01_world_example meets these hypotheses; its wallet ends empty: 700 in, 700 forwarded, 700 refunded,
   700 re-sent; 700 LST minted and delivered *)
Open Scope string_scope.
Definition wal0 : wallet := {| w_balD := 0; w_balL := 0; w_swept := 0; w_paid := 0 |}.
Example C02_world_example :
  Solvent (w_store (world0 ex_wstore), wal0)
  /\ events_ok ex_va ex_dv ex_av (exec_ok ex_va ex_dv ex_av) (world0 ex_wstore) ex_events
  /\ wwallet ex_va ex_dv ex_av (world0 ex_wstore) wal0 ex_events = {| w_balD := 0; w_balL := 0; w_swept := 0; w_paid := 0 |}.
Proof.
  split.
  { unfold Solvent, world0, wal0. cbn [w_store].
    split. { unfold I_batches, ex_wstore. cbn [batches pending_id]. split; [cbn; split; [intros ? [] | exact I]|]. split; [lia|]. split.
             - intros k Hk. assert (k = 1) by lia. subst. cbn. discriminate.
             - intros k b. cbn. destruct (k =? 1)%N eqn:E; [|discriminate]. intros H; injection H as <-. assert (k = 1) by lia. subst.
               unfold batch_ok. cbn. repeat split; try lia; try discriminate; reflexivity. }
    split. { unfold I_packets, ex_wstore. cbn. repeat split; try exact I. intros k p H. discriminate. }
    split. { unfold I_status, ex_wstore. cbn. intros k p H. discriminate. }
    split. { vm_compute. discriminate. }
    split; vm_compute; reflexivity. }
  split; [| vm_compute; reflexivity].
  unfold ex_events. cbn [events_ok]. unfold exec_ok.
  repeat split; try exact I; try (intros s' r H; vm_compute in H; inversion H; subst; reflexivity).
Qed.
