(* C05 — pro-rata, at-most-once withdrawal of unbonded tokens. *)
From MW Require Import Staking.
From MW.Proofs Require Import Tactics Arith Handlers Maps Invariant Withdraw.
Open Scope N_scope.

(* request invariant: positive amounts, one request per (batch, account), batch totals vs. open requests;
   established by instantiation (no requests) and preserved by every message *)
Theorem C05_invariant_execute : forall va dv av s e i m s' r,
  I_batches s -> I_requests s -> execute va dv av s e i m = Ok (s', r) -> I_requests s'.
Proof. exact execute_preserves_I_requests. Qed.
Print Assumptions C05_invariant_execute.

(* each requester of a Received batch gets exactly floor(received * ownRequest / batchTotal), sent to itself,
   and only its own request disappears *)
Theorem C05_withdraw : forall va dv av s e i id s' r,
  execute va dv av s e i (Withdraw id) = Ok (s', r) ->
  exists b R q om,
    stopped (cfg s) = false /\ nfind id (batches s) = Some b /\ b_status b = Received /\ b_received b = Some R
    /\ find_request (b_id b) (sender i) (requests s) = Some q /\ b_total b <> 0
    /\ r = plain (ASend (self e) (sender i)
                   {| c_denom := pc_denom (protocol (cfg s)); c_amount := R * r_amount q / b_total b |}) :: om
    /\ oracle_msgs s' e = Ok om
    /\ s' = set_requests s (remove_request (b_id b) (sender i) (requests s)).
Proof. exact withdraw_spec. Qed.
Print Assumptions C05_withdraw.

Theorem C05_no_request_no_payout : forall va dv av s e i id b,
  nfind id (batches s) = Some b -> find_request (b_id b) (sender i) (requests s) = None ->
  forall s' r, execute va dv av s e i (Withdraw id) <> Ok (s', r).
Proof. exact withdraw_needs_request. Qed.
Print Assumptions C05_no_request_no_payout.

Theorem C05_at_most_once : forall va dv av s e i id s' r,
  I_requests s -> execute va dv av s e i (Withdraw id) = Ok (s', r) ->
  forall e' fs s'' r'', execute va dv av s' e' {| sender := sender i; funds := fs |} (Withdraw id) <> Ok (s'', r'').
Proof. exact withdraw_at_most_once. Qed.
Print Assumptions C05_at_most_once.

(* independent of the order and timing of other withdrawals: they change neither the batch record nor
   any other (batch, account) request, which are the only inputs of the payout formula above *)
Theorem C05_independent : forall va dv av s e i id s' r,
  execute va dv av s e i (Withdraw id) = Ok (s', r) ->
  batches s' = batches s
  /\ forall b, nfind id (batches s) = Some b ->
     forall b2 u2, (b_id b, sender i) <> (b2, u2) -> find_request b2 u2 (requests s') = find_request b2 u2 (requests s).
Proof. exact withdraw_independent. Qed.
Print Assumptions C05_independent.

Theorem C05_unstake_accumulates : forall va dv av s e i s' r,
  execute va dv av s e i LiquidUnstake = Ok (s', r) ->
  exists a b,
    must_pay i (lst_denom (cfg s)) = Ok a /\ nfind (pending_id s) (batches s) = Some b
    /\ match find_request (pending_id s) (sender i) (requests s) with
       | Some q => requests s' = add_to_request (pending_id s) (sender i) a (requests s)
       | None => requests s' = (requests s ++ [{| r_batch := pending_id s; r_user := sender i; r_amount := a |}])%list
       end
    /\ exists b', nfind (pending_id s) (batches s') = Some b' /\ b_total b' = b_total b + a.
Proof. exact unstake_accumulates. Qed.
Print Assumptions C05_unstake_accumulates.

Theorem C05_batch_total_is_sum : forall s,
  I_requests s ->
  forall k b, nfind k (batches s) = Some b ->
    (k = pending_id s -> req_sum k (requests s) = b_total b) /\ req_sum k (requests s) <= b_total b.
Proof. exact batch_total_is_sum. Qed.
Print Assumptions C05_batch_total_is_sum.

(* the payouts of a batch never add up to more than was received: pure arithmetic, then for every store *)
Theorem C05_payouts_bounded : forall R T rs, T <> 0 -> sumN rs <= T -> sumN (map (fun r => R * r / T) rs) <= R.
Proof. exact payouts_bounded. Qed.
Print Assumptions C05_payouts_bounded.

Theorem C05_open_payouts_bounded : forall s k b R,
  I_requests s -> nfind k (batches s) = Some b -> b_total b <> 0 ->
  sumN (map (fun a => R * a / b_total b) (map r_amount (filter (fun r => r_batch r =? k) (requests s)))) <= R.
Proof. exact open_payouts_bounded. Qed.
Print Assumptions C05_open_payouts_bounded.

Example C05_example : sumN (map (fun r => 1000 * r / 7) [1; 2; 4]) = 142 + 285 + 571 /\ 142 + 285 + 571 <= 1000.
Proof. vm_compute. split; [reflexivity | discriminate]. Qed.
