(* C18 — migrations are version-gated and preserve every value-bearing record.
   A refused migration returns Err: CosmWasm persists nothing of a failed call (runtime, DESIGN section 3). *)
From MW Require Import Staking Treasury Migrate.
From MW.Proofs Require Import Tactics Handlers Maps Invariant Recovery MigrateProofs.
From MW.Gen Require Import Consts.
From MW.Properties Require C08.
Open Scope N_scope.

(* the constants of the source (regenerated on every run): per-path source versions, contract names and versions *)
Theorem C18_constants :
  src_from_version_v0_4_20 = FROM_0418 /\ src_from_version_v1_0_0 = FROM_0420 /\ src_from_version_v1_1_0 = FROM_100
  /\ src_staking_name = CONTRACT_NAME /\ src_staking_version = CONTRACT_VERSION
  /\ src_treasury_name = T_CONTRACT_NAME /\ src_treasury_version = T_CONTRACT_VERSION.
Proof. repeat split; reflexivity. Qed.
Print Assumptions C18_constants.

Theorem C18_gate : forall va ms msg ms',
  migrate va ms msg = Ok ms' ->
  m_name ms = CONTRACT_NAME /\ m_version ms = from_version msg
  /\ (exists v nv, parse_semver (m_version ms) = Some v /\ parse_semver CONTRACT_VERSION = Some nv /\ semver_lt v nv = true)
  /\ m_name ms' = CONTRACT_NAME /\ m_version ms' = CONTRACT_VERSION.
Proof. exact migrate_gate. Qed.
Print Assumptions C18_gate.

Theorem C18_v110_preserves : forall va ms ms' c pkts waits c' pkts' waits',
  migrate va ms MV100 = Ok ms' -> m_layout ms = L100 c pkts waits -> m_layout ms' = L110 c' pkts' waits' ->
  c' = c
  /\ (forall k, nfind k pkts' = option_map (fun lp => {| p_seq := lp_seq lp; p_coin := {| c_denom := pc_denom (protocol c); c_amount := lp_amount lp |};
                                                        p_receiver := nc_staker (native c); p_status := lp_status lp |}) (nfind k pkts))
  /\ (forall k, nfind k waits' = option_map (fun a => {| w_coin := {| c_denom := pc_denom (protocol c); c_amount := a |};
                                                         w_receiver := nc_staker (native c) |}) (nfind k waits))
  /\ nkeys pkts' = nkeys pkts /\ nkeys waits' = nkeys waits.
Proof. exact v110_packet. Qed.
Print Assumptions C18_v110_preserves.

Theorem C18_v110_layout : forall va ms ms',
  migrate va ms MV100 = Ok ms' ->
  exists c pkts waits,
    m_layout ms = L100 c pkts waits
    /\ m_layout ms' = L110 c
         (map (fun kv => (fst kv, {| p_seq := lp_seq (snd kv);
                                      p_coin := {| c_denom := pc_denom (protocol c); c_amount := lp_amount (snd kv) |};
                                      p_receiver := nc_staker (native c); p_status := lp_status (snd kv) |})) pkts)
         (map (fun kv => (fst kv, {| w_coin := {| c_denom := pc_denom (protocol c); c_amount := snd kv |};
                                      w_receiver := nc_staker (native c) |})) waits).
Proof. exact v110_preserves. Qed.
Print Assumptions C18_v110_layout.

(* what the permissionless recovery selects after the upgrade (the refundable records of the staker) carries
   exactly the refundable legacy amounts, in the staked-asset denom *)
Theorem C18_v110_refundable : forall va ms ms' c pkts waits pkts' waits',
  migrate va ms MV100 = Ok ms' -> m_layout ms = L100 c pkts waits -> m_layout ms' = L110 c pkts' waits' ->
  map (fun p => (p_seq p, c_amount (p_coin p))) (filter (recover_filter (nc_staker (native c))) (map snd pkts'))
  = map (fun lp => (lp_seq lp, lp_amount lp)) (filter (fun lp => refundable (lp_status lp)) (map snd pkts))
  /\ (forall p, In p (map snd pkts') -> c_denom (p_coin p) = pc_denom (protocol c) /\ p_receiver p = nc_staker (native c)).
Proof. exact v110_refundable. Qed.
Print Assumptions C18_v110_refundable.

Theorem C18_v0420_fieldwise : forall va ms sf ms',
  migrate va ms (MV0418 sf) = Ok ms' ->
  exists c pkts waits c',
    m_layout ms = L0418 c pkts waits /\ m_layout ms' = L0420 c' pkts waits
    /\ b_native_denom c' = a_native_denom c /\ b_lst_denom c' = a_lst_denom c /\ b_treasury c' = a_treasury c
    /\ b_monitors c' = a_monitors c /\ b_validators c' = a_validators c /\ b_batch_period c' = a_batch_period c
    /\ b_unbonding c' = a_unbonding c /\ b_fee c' = a_fee c /\ b_staker c' = a_staker c /\ b_collector c' = a_collector c
    /\ b_min c' = a_min c /\ b_channel c' = a_channel c /\ b_stopped c' = a_stopped c /\ b_oracle c' = a_oracle c
    /\ b_send_fees c' = sf.
Proof. exact v0420_fieldwise. Qed.
Print Assumptions C18_v0420_fieldwise.

Theorem C18_v100_fieldwise : forall va ms np vp nd pp ms',
  migrate va ms (MV0420 np vp nd pp) = Ok ms' ->
  exists c pkts waits c',
    m_layout ms = L0420 c pkts waits /\ m_layout ms' = L100 c' pkts waits
    /\ validate_address_prefix np = Some (nc_prefix (native c')) /\ validate_address_prefix vp = Some (nc_valprefix (native c'))
    /\ validate_address_prefix pp = Some (pc_prefix (protocol c')) /\ validate_denom nd = Some nd /\ nc_denom (native c') = nd
    /\ nc_validators (native c') = b_validators c /\ nc_unbonding (native c') = b_unbonding c
    /\ nc_staker (native c') = b_staker c /\ nc_collector (native c') = b_collector c
    /\ pc_channel (protocol c') = b_channel c /\ pc_denom (protocol c') = b_native_denom c /\ pc_min (protocol c') = b_min c
    /\ pc_oracle (protocol c') = b_oracle c /\ fee_rate (fees c') = b_fee c
    /\ fee_treasury (fees c') = (if b_send_fees c then Some (b_treasury c) else None)
    /\ lst_denom c' = b_lst_denom c /\ monitors c' = opt_default [] (b_monitors c)
    /\ batch_period c' = b_batch_period c /\ stopped c' = b_stopped c
    /\ va (b_staker c) (nc_prefix (native c')) = true /\ va (b_collector c) (nc_prefix (native c')) = true
    /\ (forall v, In v (b_validators c) -> va v (nc_valprefix (native c')) = true)
    /\ (forall o, b_oracle c = Some o -> va o (pc_prefix (protocol c')) = true)
    /\ (b_send_fees c = true -> va (b_treasury c) (pc_prefix (protocol c')) = true).
Proof. exact v100_fieldwise. Qed.
Print Assumptions C18_v100_fieldwise.

Theorem C18_treasury : forall s s' r,
  tmigrate s = Ok (s', r) ->
  fst (t_version s) = T_CONTRACT_NAME
  /\ (exists v nv, parse_semver (snd (t_version s)) = Some v /\ parse_semver T_CONTRACT_VERSION = Some nv /\ semver_lt v nv = true)
  /\ s' = s /\ r = [].
Proof. exact tmigrate_spec. Qed.
Print Assumptions C18_treasury.

Example C18_example :
  let c := cfg C08.ex_store in
  let ms := {| m_name := "staking"; m_version := "1.0.0";
               m_layout := L100 c [(3, {| lp_seq := 3; lp_amount := 70; lp_status := AckFailure |}); (5, {| lp_seq := 5; lp_amount := 9; lp_status := Sent |})] [] |} in
  match migrate (fun _ _ => true) ms MV100 with
  | Ok ms' => m_version ms' = "1.1.0"%string
              /\ match m_layout ms' with L110 _ pk _ => map (fun kv => (fst kv, c_amount (p_coin (snd kv)), p_receiver (snd kv))) pk = [(3, 70, "staker"%string); (5, 9, "staker"%string)] | _ => False end
  | _ => False
  end
  /\ is_ok (migrate (fun _ _ => true) {| m_name := "staking"; m_version := "1.0.1"; m_layout := m_layout ms |} MV100) = false
  /\ is_ok (migrate (fun _ _ => true) {| m_name := "treasury"; m_version := "1.0.0"; m_layout := m_layout ms |} MV100) = false.
Proof. vm_compute. repeat split; reflexivity. Qed.
