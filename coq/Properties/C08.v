(* C08 — authorization matrix of the staking contract.
   [execute] returns the new store only with [Ok]; an [Err] persists nothing (CosmWasm discards the
   writes of a failed call), so "any other caller gets an error and nothing changes" is: Ok -> allowed. *)
From MW Require Import Staking.
From MW.Proofs Require Import Tactics Handlers Authz.
Open Scope N_scope.

(* for every store, environment, sender, funds and message: success implies the caller is entitled *)
Theorem C08_authz : forall va dv av s e i m s' r,
  execute va dv av s e i m = Ok (s', r) -> allowed dv s (sender i) m.
Proof. exact authz. Qed.
Print Assumptions C08_authz.

(* the table itself, spelled out (so that a change of [allowed] is visible here) *)
Theorem C08_table : forall dv s who m,
  allowed dv s who m <->
  match m with
  | AddValidator _ | RemoveValidator _ | UpdateConfig _ _ _ _ _ | TransferOwnership _
  | RevokeOwnershipTransfer | ResumeContract _ _ _ | FeeWithdraw _
  | RecoverPendingIbcTransfers _ (Some _) _ => admin s = Some who
  | CircuitBreaker => admin s = Some who \/ In who (monitors (cfg s))
  | AcceptOwnership => pending_owner (st s) = Some who
  | ReceiveRewards =>
      dv (pc_channel (protocol (cfg s))) (nc_collector (native (cfg s))) (pc_prefix (protocol (cfg s))) = Some who
  | ReceiveUnstakedTokens _ =>
      dv (pc_channel (protocol (cfg s))) (nc_staker (native (cfg s))) (pc_prefix (protocol (cfg s))) = Some who
  | LiquidStake _ _ _ | LiquidUnstake | SubmitBatch | Withdraw _ | RecoverPendingIbcTransfers _ None _ => True
  end.
Proof. intros dv s who m. destruct m as [| | | | | | | | | | | | | |? sel ?|]; cbn; try tauto; destruct sel; tauto. Qed.
Print Assumptions C08_table.

(* Withdraw pays only the caller, only the caller's own request, and removes only that request *)
Theorem C08_withdraw_own_only : forall va dv av s e i id s' r,
  execute va dv av s e i (Withdraw id) = Ok (s', r) ->
  exists b q amount om,
    nfind id (batches s) = Some b
    /\ find_request (b_id b) (sender i) (requests s) = Some q
    /\ r = plain (ASend (self e) (sender i) {| c_denom := pc_denom (protocol (cfg s)); c_amount := amount |}) :: om
    /\ oracle_msgs s' e = Ok om
    /\ s' = set_requests s (remove_request (b_id b) (sender i) (requests s)).
Proof. exact withdraw_own_only. Qed.
Print Assumptions C08_withdraw_own_only.

(* non-vacuity: an admin-only message by the admin succeeds, by anyone else it is refused *)
Definition ex_store : store :=
  {| cfg := {| native := {| nc_prefix := "celestia"; nc_valprefix := "celestiavaloper"; nc_denom := "utia";
                            nc_validators := ["v1"%string]; nc_unbonding := 100; nc_staker := "staker"; nc_collector := "coll" |};
               protocol := {| pc_prefix := "osmo"; pc_channel := "channel-0"; pc_denom := "ibc/x"; pc_min := 1; pc_oracle := None |};
               fees := {| fee_rate := 0; fee_treasury := None |}; lst_denom := "lst"; monitors := ["mon"%string];
               batch_period := 10; stopped := false |};
     st := {| total_native := 0; total_lst := 0; total_reward := 0; total_fees := 0; pending_owner := None; owner_min_time := None |};
     admin := Some "admin"%string; batches := [(1, new_batch 1 10)]; pending_id := 1; requests := []; inflight := [];
     waitq := []; version := ("staking"%string, "1.1.0"%string) |}.
Example C08_example :
  let ex := fun who => execute (fun _ _ => true) (fun _ _ _ => None) (fun _ => true) ex_store
                 {| now_ns := 0; txi := None; self := "me" |} {| sender := who; funds := [] |} RevokeOwnershipTransfer in
  is_ok (ex "admin"%string) = true /\ is_ok (ex "mallory"%string) = false.
Proof. vm_compute. split; reflexivity. Qed.
