(* Base.v — shared definitions of the executable model: outcome monad, the partial
   128/64-bit arithmetic of cosmwasm-std 1.5.9, decimal rendering, small sorted maps.
   No proofs here (so the model still runs when a proof breaks). *)
From Coq Require Export List NArith ZArith String Ascii Bool Lia.
From Coq Require Import DecimalString DecimalN.
Export ListNotations.
Open Scope N_scope.

(* ---------- outcomes ---------- *)
Inductive errkind :=
| EUnauthorized | EAdmin | EHalted | EPayment | EMinStake | EMintError | EMintMismatch
| EMissingMintAddress | EInvalidAddress | EBatchNotReady | EBatchEmpty | EInvalidUnstake
| ETokensAlreadyClaimed | ENoRequest | EBatchNotClaimable | ENoLiquidStake | ERewardsTooSmall
| EInsufficientFunds | ETreasuryNotConfigured | ENoPendingOwner | EOwnershipNotReady
| EDuplicateValidator | EValidatorNotFound | ENoInflight | EInvalidReceiver | EInconsistentDenom
| EDuplicatePacket | EContractLocked | EInvalidReplyID | EFailedIBC | EChannelNotFound | EChannelWrong
| EStd | EOverflow | ENotFound | EVersion | ESwapRoute | ETokenIn | ETokenOut.

Inductive result (A : Type) :=
| Ok (a : A)
| Err (e : errkind)
| Panic (site : N).
Arguments Ok {A} a.
Arguments Err {A} e.
Arguments Panic {A} site.

Definition bind {A B} (r : result A) (f : A -> result B) : result B :=
  match r with Ok a => f a | Err e => Err e | Panic s => Panic s end.
Notation "'do' x <- r ; k" := (bind r (fun x => k)) (at level 200, x pattern, r at level 100, k at level 200, right associativity).
Notation "'check' c 'else' e ; k" := (if c then k else Err e) (at level 200, c at level 100, e at level 100, k at level 200, right associativity).

Definition is_ok {A} (r : result A) : bool := match r with Ok _ => true | _ => false end.
Definition is_panic {A} (r : result A) : bool := match r with Panic _ => true | _ => false end.
Definition of_opt {A} (o : option A) (site : N) : result A :=
  match o with Some a => Ok a | None => Panic site end.
Definition of_opt_err {A} (o : option A) (e : errkind) : result A :=
  match o with Some a => Ok a | None => Err e end.

(* ---------- machine arithmetic (panicking operators become None) ---------- *)
Definition u128_max : N := 2 ^ 128 - 1.
Definition u64_max : N := 2 ^ 64 - 1.
Definition u32_max : N := 2 ^ 32 - 1.

Definition add128 (a b : N) : option N := if a + b <=? u128_max then Some (a + b) else None.
Definition add64 (a b : N) : option N := if a + b <=? u64_max then Some (a + b) else None.
(* helpers::checked_deadline: now + period in seconds, refused unless a Timestamp (nanoseconds in a u64) can hold it *)
Definition deadline (now period : N) : option N :=
  if (now + period) * 1000000000 <=? u64_max then Some (now + period) else None.
(* Uint128::checked_sub *)
Definition sub_checked (a b : N) : option N := if b <=? a then Some (a - b) else None.
(* Uint128::multiply_ratio(self, num, den): panics on den = 0 and when the quotient
   exceeds 128 bits (the product itself is computed in 256 bits) *)
Definition mul_ratio (a num den : N) : option N :=
  if den =? 0 then None
  else let q := a * num / den in if q <=? u128_max then Some q else None.

(* Decimal (18 fractional digits, stored as atomics in a Uint128) *)
Definition dec_one : N := 10 ^ 18.
Definition from_ratio (num den : N) : option N :=
  if den =? 0 then None
  else let q := num * dec_one / den in if q <=? u128_max then Some q else None.

(* ---------- strings ---------- *)
Definition N_to_string (n : N) : string := NilZero.string_of_uint (N.to_uint n).

Fixpoint str_rev_aux (s acc : string) : string :=
  match s with EmptyString => acc | String c r => str_rev_aux r (String c acc) end.
Definition str_rev (s : string) : string := str_rev_aux s EmptyString.
Fixpoint drop_zeros (s : string) : string :=
  match s with String "0"%char r => drop_zeros r | _ => s end.
Definition trim_trailing_zeros (s : string) : string := str_rev (drop_zeros (str_rev s)).
Fixpoint zeros (n : nat) : string :=
  match n with O => EmptyString | S k => String "0"%char (zeros k) end.
Definition pad_left18 (s : string) : string := append (zeros (18 - String.length s)) s.

(* cosmwasm_std::Decimal's Display *)
Definition dec_to_string (atomics : N) : string :=
  let whole := atomics / dec_one in
  let frac := atomics mod dec_one in
  if frac =? 0 then N_to_string whole
  else append (N_to_string whole) (append "." (trim_trailing_zeros (pad_left18 (N_to_string frac)))).

Definition str_eqb := String.eqb.
Definition slen (s : string) : N := N.of_nat (String.length s).
Fixpoint starts_with (p s : string) : bool :=
  match p, s with
  | EmptyString, _ => true
  | String a p', String b s' => Ascii.eqb a b && starts_with p' s'
  | _, EmptyString => false
  end.
Fixpoint strip_prefix (p s : string) : option string :=
  match p, s with
  | EmptyString, _ => Some s
  | String a p', String b s' => if Ascii.eqb a b then strip_prefix p' s' else None
  | _, EmptyString => None
  end.
Fixpoint str_forall (f : ascii -> bool) (s : string) : bool :=
  match s with EmptyString => true | String c r => f c && str_forall f r end.
Fixpoint str_exists (f : ascii -> bool) (s : string) : bool :=
  match s with EmptyString => false | String c r => f c || str_exists f r end.
Fixpoint str_map (f : ascii -> ascii) (s : string) : string :=
  match s with EmptyString => EmptyString | String c r => String (f c) (str_map f r) end.
Definition code (c : ascii) : N := N_of_ascii c.
Definition is_lower (c : ascii) : bool := (97 <=? code c) && (code c <=? 122).
Definition is_upper (c : ascii) : bool := (65 <=? code c) && (code c <=? 90).
Definition is_digit (c : ascii) : bool := (48 <=? code c) && (code c <=? 57).
Definition is_alpha (c : ascii) : bool := is_lower c || is_upper c.
Definition to_lower (c : ascii) : ascii := if is_upper c then ascii_of_N (code c + 32) else c.
Definition to_upper (c : ascii) : ascii := if is_lower c then ascii_of_N (code c - 32) else c.
Definition lowercase (s : string) : string := str_map to_lower s.

Fixpoint mem_str (x : string) (l : list string) : bool :=
  match l with [] => false | y :: r => String.eqb x y || mem_str x r end.
Fixpoint nodup_str (l : list string) : bool :=
  match l with [] => true | x :: r => negb (mem_str x r) && nodup_str r end.
Fixpoint remove_first_str (x : string) (l : list string) : list string :=
  match l with [] => [] | y :: r => if String.eqb x y then r else y :: remove_first_str x r end.

Definition opt_str_eqb (a b : option string) : bool :=
  match a, b with
  | None, None => true
  | Some x, Some y => String.eqb x y
  | _, _ => false
  end.

(* ---------- sorted association lists keyed by N (cw-storage-plus Map<u64, _> iteration order) ---------- *)
Section NMap.
  Context {A : Type}.
  Definition nmap := list (N * A).
  Fixpoint nfind (k : N) (m : nmap) : option A :=
    match m with
    | [] => None
    | (k', v) :: r => if k =? k' then Some v else nfind k r
    end.
  Fixpoint ninsert (k : N) (v : A) (m : nmap) : nmap :=
    match m with
    | [] => [(k, v)]
    | (k', v') :: r =>
        if k <? k' then (k, v) :: m
        else if k =? k' then (k, v) :: r
        else (k', v') :: ninsert k v r
    end.
  Fixpoint nremove (k : N) (m : nmap) : nmap :=
    match m with
    | [] => []
    | (k', v') :: r => if k =? k' then r else (k', v') :: nremove k r
    end.
  Definition nkeys (m : nmap) : list N := map fst m.
  Definition nvals (m : nmap) : list A := map snd m.
  Fixpoint nlast_key (m : nmap) : option N :=
    match m with
    | [] => None
    | [(k, _)] => Some k
    | _ :: r => nlast_key r
    end.
End NMap.
Arguments nmap A : clear implicits.

Fixpoint sumN (l : list N) : N := match l with [] => 0 | x :: r => x + sumN r end.

Definition opt_default {A} (d : A) (o : option A) : A := match o with Some a => a | None => d end.
