(* Migrate.v — executable model of the staking contract's migrate entry point (contract.rs, migrations/*.rs)
   on the three legacy layouts.  Only the records a migration reads or writes are modelled; everything
   else in storage is not touched by any path (checked by the correspondence: set of changed raw keys). *)
From MW Require Export Staking Treasury.
Open Scope string_scope.
Open Scope N_scope.

Record cfg0418 := {
  a_native_denom : string; a_lst_denom : string; a_treasury : string; a_operators : option (list string);
  a_monitors : option (list string); a_validators : list string; a_batch_period : N; a_unbonding : N;
  a_fee : N; a_staker : string; a_collector : string; a_min : N; a_channel : string; a_stopped : bool;
  a_oracle_v1 : option string; a_oracle_v2 : option string; a_oracle : option string }.

Record cfg0420 := {
  b_native_denom : string; b_lst_denom : string; b_treasury : string; b_monitors : option (list string);
  b_validators : list string; b_batch_period : N; b_unbonding : N; b_fee : N; b_staker : string; b_collector : string;
  b_min : N; b_channel : string; b_stopped : bool; b_oracle : option string; b_send_fees : bool }.

Record lpacket := { lp_seq : N; lp_amount : N; lp_status : pstatus }.

Inductive layout :=
| L0418 (c : cfg0418) (pkts : nmap lpacket) (waits : nmap N)
| L0420 (c : cfg0420) (pkts : nmap lpacket) (waits : nmap N)
| L100 (c : config) (pkts : nmap lpacket) (waits : nmap N)
| L110 (c : config) (pkts : nmap packet) (waits : nmap waiting).

Record mstore := { m_name : string; m_version : string; m_layout : layout }.

Inductive migrate_msg :=
| MV0418 (send_fees : bool)
| MV0420 (native_prefix val_prefix native_denom protocol_prefix : string)
| MV100.

Definition FROM_0418 : string := "0.4.18".
Definition FROM_0420 : string := "0.4.20".
Definition FROM_100 : string := "1.0.0".

Section MigrateModel.
  Variable valid_addr : string -> string -> bool.

  Definition stamp (l : layout) : mstore := {| m_name := CONTRACT_NAME; m_version := CONTRACT_VERSION; m_layout := l |}.

  Definition migrate (ms : mstore) (msg : migrate_msg) : result mstore :=
    check String.eqb (m_name ms) CONTRACT_NAME else EStd;
    match parse_semver (m_version ms), parse_semver CONTRACT_VERSION with
    | Some v, Some nv =>
        check semver_lt v nv else EStd;
        match msg with
        | MV0418 send_fees =>
            check String.eqb (m_version ms) FROM_0418 else EVersion;
            match m_layout ms with
            | L0418 c pkts waits =>
                Ok (stamp (L0420 {| b_native_denom := a_native_denom c; b_lst_denom := a_lst_denom c; b_treasury := a_treasury c;
                                    b_monitors := a_monitors c; b_validators := a_validators c; b_batch_period := a_batch_period c;
                                    b_unbonding := a_unbonding c; b_fee := a_fee c; b_staker := a_staker c;
                                    b_collector := a_collector c; b_min := a_min c; b_channel := a_channel c;
                                    b_stopped := a_stopped c; b_oracle := a_oracle c; b_send_fees := send_fees |} pkts waits))
            | _ => Err EStd
            end
        | MV0420 np vp nd pp =>
            check String.eqb (m_version ms) FROM_0420 else EVersion;
            match validate_address_prefix np, validate_address_prefix vp, validate_address_prefix pp, validate_denom nd with
            | Some np', Some vp', Some pp', Some _ =>
                match m_layout ms with
                | L0420 c pkts waits =>
                    check valid_addr (b_staker c) np' else EStd;
                    check valid_addr (b_collector c) np' else EStd;
                    check forallb (fun v => valid_addr v vp') (b_validators c) else EStd;
                    check match b_oracle c with Some o => valid_addr o pp' | None => true end else EStd;
                    check (if b_send_fees c then valid_addr (b_treasury c) pp' else true) else EStd;
                    Ok (stamp (L100
                      {| native := {| nc_prefix := np'; nc_valprefix := vp'; nc_denom := nd; nc_validators := b_validators c;
                                      nc_unbonding := b_unbonding c; nc_staker := b_staker c; nc_collector := b_collector c |};
                         protocol := {| pc_prefix := pp'; pc_channel := b_channel c; pc_denom := b_native_denom c;
                                        pc_min := b_min c; pc_oracle := b_oracle c |};
                         fees := {| fee_rate := b_fee c; fee_treasury := if b_send_fees c then Some (b_treasury c) else None |};
                         lst_denom := b_lst_denom c; monitors := opt_default [] (b_monitors c);
                         batch_period := b_batch_period c; stopped := b_stopped c |} pkts waits))
                | _ => Err EStd
                end
            | _, _, _, _ => Err EStd
            end
        | MV100 =>
            check String.eqb (m_version ms) FROM_100 else EVersion;
            match m_layout ms with
            | L100 c pkts waits =>
                let D := pc_denom (protocol c) in
                let staker := nc_staker (native c) in
                Ok (stamp (L110 c
                      (map (fun kv => (fst kv, {| p_seq := lp_seq (snd kv); p_coin := {| c_denom := D; c_amount := lp_amount (snd kv) |};
                                                  p_receiver := staker; p_status := lp_status (snd kv) |})) pkts)
                      (map (fun kv => (fst kv, {| w_coin := {| c_denom := D; c_amount := snd kv |}; w_receiver := staker |})) waits)))
            | _ => Err EStd
            end
        end
    | _, _ => Err EStd
    end.
End MigrateModel.
