(* Staking.v — executable model of contracts/staking (entry points instantiate / execute /
   reply / sudo / query).  Every panicking operator or unwrap of the Rust source is a [Panic site]
   (site = line number in the annotated source file), every typed error an [Err].
   The model is parameterised by the bech32 validation, the ibc-hooks sender derivation and
   deps.api.addr_validate so that the authorisation / accounting proofs never unfold them;
   Concrete.v instantiates them with the Crypto model. *)
From MW Require Export Base Wire.
Open Scope string_scope.
Open Scope N_scope.

(* ---------- stored types (state.rs, milky_way::staking) ---------- *)
Inductive bstatus := Pending | Submitted | Received.
Definition bstatus_eqb (a b : bstatus) : bool :=
  match a, b with Pending, Pending | Submitted, Submitted | Received, Received => true | _, _ => false end.

Record batch := {
  b_id : N; b_total : N; b_expected : option N; b_received : option N;
  b_count : option N; b_time : option N; b_status : bstatus }.

Inductive pstatus := Sent | AckSuccess | AckFailure | TimedOut.
Definition refundable (s : pstatus) : bool :=
  match s with AckFailure | TimedOut => true | _ => false end.
Record packet := { p_seq : N; p_coin : coin; p_receiver : string; p_status : pstatus }.
Record waiting := { w_coin : coin; w_receiver : string }.

Record native_cfg := {
  nc_prefix : string; nc_valprefix : string; nc_denom : string; nc_validators : list string;
  nc_unbonding : N; nc_staker : string; nc_collector : string }.
Record protocol_cfg := {
  pc_prefix : string; pc_channel : string; pc_denom : string; pc_min : N; pc_oracle : option string }.
Record fee_cfg := { fee_rate : N; fee_treasury : option string }.
Record config := {
  native : native_cfg; protocol : protocol_cfg; fees : fee_cfg;
  lst_denom : string; monitors : list string; batch_period : N; stopped : bool }.

Record state := {
  total_native : N; total_lst : N; total_reward : N; total_fees : N;
  pending_owner : option string; owner_min_time : option N (* seconds *) }.

Record request := { r_batch : N; r_user : string; r_amount : N }.

Record store := {
  cfg : config; st : state; admin : option string;
  batches : nmap batch; pending_id : N;
  requests : list request;           (* primary key (batch, user); kept in insertion order per batch *)
  inflight : nmap packet; waitq : nmap waiting;
  version : string * string }.

(* record updates *)
Definition set_cfg (s : store) (c : config) : store :=
  {| cfg := c; st := st s; admin := admin s; batches := batches s; pending_id := pending_id s;
     requests := requests s; inflight := inflight s; waitq := waitq s; version := version s |}.
Definition set_st (s : store) (x : state) : store :=
  {| cfg := cfg s; st := x; admin := admin s; batches := batches s; pending_id := pending_id s;
     requests := requests s; inflight := inflight s; waitq := waitq s; version := version s |}.
Definition set_admin (s : store) (a : option string) : store :=
  {| cfg := cfg s; st := st s; admin := a; batches := batches s; pending_id := pending_id s;
     requests := requests s; inflight := inflight s; waitq := waitq s; version := version s |}.
Definition set_batches (s : store) (b : nmap batch) : store :=
  {| cfg := cfg s; st := st s; admin := admin s; batches := b; pending_id := pending_id s;
     requests := requests s; inflight := inflight s; waitq := waitq s; version := version s |}.
Definition set_pending_id (s : store) (p : N) : store :=
  {| cfg := cfg s; st := st s; admin := admin s; batches := batches s; pending_id := p;
     requests := requests s; inflight := inflight s; waitq := waitq s; version := version s |}.
Definition set_requests (s : store) (r : list request) : store :=
  {| cfg := cfg s; st := st s; admin := admin s; batches := batches s; pending_id := pending_id s;
     requests := r; inflight := inflight s; waitq := waitq s; version := version s |}.
Definition set_inflight (s : store) (i : nmap packet) : store :=
  {| cfg := cfg s; st := st s; admin := admin s; batches := batches s; pending_id := pending_id s;
     requests := requests s; inflight := i; waitq := waitq s; version := version s |}.
Definition set_waitq (s : store) (w : nmap waiting) : store :=
  {| cfg := cfg s; st := st s; admin := admin s; batches := batches s; pending_id := pending_id s;
     requests := requests s; inflight := inflight s; waitq := w; version := version s |}.

Definition set_totals (x : state) (n l r f : N) : state :=
  {| total_native := n; total_lst := l; total_reward := r; total_fees := f;
     pending_owner := pending_owner x; owner_min_time := owner_min_time x |}.
Definition set_owner (x : state) (p : option string) (t : option N) : state :=
  {| total_native := total_native x; total_lst := total_lst x; total_reward := total_reward x;
     total_fees := total_fees x; pending_owner := p; owner_min_time := t |}.
Definition set_stopped (c : config) (b : bool) : config :=
  {| native := native c; protocol := protocol c; fees := fees c; lst_denom := lst_denom c;
     monitors := monitors c; batch_period := batch_period c; stopped := b |}.

(* ---------- messages (msg.rs) ---------- *)
Record unsafe_native := {
  un_prefix : string; un_valprefix : string; un_denom : string; un_validators : list string;
  un_unbonding : N; un_staker : string; un_collector : string }.
Record unsafe_protocol := {
  up_prefix : string; up_denom : string; up_channel : string; up_min : N; up_oracle : option string }.
Record unsafe_fee := { uf_rate : N; uf_treasury : option string }.

Record instantiate_msg := {
  im_native : unsafe_native; im_protocol : unsafe_protocol; im_fee : unsafe_fee;
  im_lst : string; im_batch_period : N; im_monitors : list string }.

Inductive execute_msg :=
| LiquidStake (mint_to : option string) (to_native : option bool) (expected : option N)
| LiquidUnstake
| SubmitBatch
| Withdraw (batch_id : N)
| AddValidator (v : string)
| RemoveValidator (v : string)
| TransferOwnership (new_owner : string)
| AcceptOwnership
| RevokeOwnershipTransfer
| UpdateConfig (n : option unsafe_native) (p : option unsafe_protocol) (f : option unsafe_fee)
               (m : option (list string)) (bp : option N)
| ReceiveRewards
| ReceiveUnstakedTokens (batch_id : N)
| CircuitBreaker
| ResumeContract (n l r : N)
| RecoverPendingIbcTransfers (paginated : option bool) (selected : option (list N)) (receiver : option string)
| FeeWithdraw (amount : N).

Inductive reply_result := ROk (seq : N) | RErr | RNoData | RBadData.
Inductive sudo_msg := SAck (channel : string) (seq : N) (success : bool) | STimeout (channel : string) (seq : N).

Inductive query_msg :=
| QConfig | QState | QBatch (id : N)
| QBatches (start_after : option N) (limit : option N) (status : option bstatus)
| QBatchesByIds (ids : list N) | QPendingBatch | QUnstakeRequests (user : string)
| QIbcQueue (start_after : option N) (limit : option N)
| QIbcReplyQueue (start_after : option N) (limit : option N)
| QAllRequests (start_after : option N) (limit : option N)       (* AllUnstakeRequests *)
| QAllRequestsV2 (start_after : option N) (limit : option N).    (* AllUnstakeRequestsV2: the same rows as tuples *)

Record batch_response := {
  br_id : N; br_total : N; br_expected : N; br_received : N; br_count : N; br_time_ns : N; br_status : bstatus }.
Inductive query_response :=
| RConfig (c : config)
| RState (n l rate : N) (pending_owner : string) (reward fees : N)
| RBatch (b : batch_response)
| RBatches (bs : list batch_response)
| RRequests (rs : list request)
| RIbcQueue (ps : list packet)
| RReplyQueue (ws : list waiting).

Record env := { now_ns : N; txi : option N; self : string }.
Record info := { sender : string; funds : list coin }.
Definition now_s (e : env) : N := now_ns e / 1000000000.

(* ---------- constants (pinned against the source by Gen/Consts.v) ---------- *)
Definition IBC_TIMEOUT_NS : N := 1000000000000.
Definition OWNER_DELAY_S : N := 604800.
Definition FEE_DENOM : N := 100000.
Definition PAGE_SIZE : N := 10.
Definition CONTRACT_NAME : string := "staking".
Definition CONTRACT_VERSION : string := "1.1.0".

(* ---------- pure helpers (helpers.rs) ---------- *)
Definition valid_hrp_char (c : ascii) : bool := (33 <=? code c) && (code c <=? 126).
Definition validate_address_prefix (hrp : string) : option string :=
  if (slen hrp =? 0) || (83 <? slen hrp) then None
  else if negb (str_forall valid_hrp_char hrp) then None
  else let lo := str_exists is_lower hrp in
       let up := str_exists is_upper hrp in
       if lo && up then None
       else if up then Some (lowercase hrp) else Some hrp.

Definition validate_denom (d : string) : option string :=
  if slen d <=? 3 then None else if str_forall is_alpha d then Some d else None.

Definition validate_ibc_denom (d : string) : option string :=
  match strip_prefix "ibc/" d with
  | Some r => if slen r =? 64 then Some d else None
  | None => None
  end.

Fixpoint digits_value (s : string) (acc : N) : N :=
  match s with EmptyString => acc | String c r => digits_value r (acc * 10 + (code c - 48)) end.
Definition valid_channel (c : string) : bool :=
  match strip_prefix "channel-" c with
  | Some r => negb (slen r =? 0) && str_forall is_digit r && (digits_value r 0 <=? u64_max)
  | None => false
  end.

Definition compute_mint (tn tl a : N) : option N := if tn =? 0 then Some a else mul_ratio tl a tn.
Definition compute_unbond (tn tl b : N) : option N := if b =? 0 then Some 0 else mul_ratio tn b tl.

(* helpers::get_rates -> (redemption, purchase) as Decimal atomics *)
Definition get_rates (x : state) : option (N * N) :=
  if total_lst x =? 0 then Some (0, 0)
  else match from_ratio (total_native x) (total_lst x), from_ratio (total_lst x) (total_native x) with
       | Some r, Some p => Some (r, p)
       | _, _ => None
       end.

Definition is_admin (s : store) (a : string) : bool := opt_str_eqb (admin s) (Some a).

Definition find_coin (d : string) (fs : list coin) : option coin :=
  find (fun c => String.eqb (c_denom c) d) fs.

(* cw_utils::must_pay *)
Definition must_pay (i : info) (d : string) : result N :=
  match funds i with
  | [c] => if c_amount c =? 0 then Err EPayment
           else if String.eqb (c_denom c) d then Ok (c_amount c) else Err EPayment
  | _ => Err EPayment
  end.

(* helpers::paginate_map on an ascending map *)
Fixpoint take_n {A} (n : N) (l : list A) : list A :=
  match l with
  | [] => []
  | x :: r => if n =? 0 then [] else x :: take_n (n - 1) r
  end.
Definition after_cursor {A} (c : option N) (m : nmap A) : nmap A :=
  match c with None => m | Some k => filter (fun kv => k <? fst kv) m end.
Definition paginate {A} (m : nmap A) (start_after : option N) (limit : option N) (f : A -> bool) : list A :=
  take_n (opt_default u32_max limit) (filter f (nvals (after_cursor start_after m))).

Definition find_request (b : N) (u : string) (rs : list request) : option request :=
  find (fun r => (r_batch r =? b) && String.eqb (r_user r) u) rs.
Definition remove_request (b : N) (u : string) (rs : list request) : list request :=
  filter (fun r => negb ((r_batch r =? b) && String.eqb (r_user r) u)) rs.
Definition add_to_request (b : N) (u : string) (a : N) (rs : list request) : list request :=
  map (fun r => if (r_batch r =? b) && String.eqb (r_user r) u
                then {| r_batch := r_batch r; r_user := r_user r; r_amount := r_amount r + a |} else r) rs.
Definition batch_has_request (b : N) (rs : list request) : bool := existsb (fun r => r_batch r =? b) rs.

(* The by-user index (UniqueIndex keyed (user, batch id)): storage keys are the 2-byte length of the user, the user's
   bytes, then the batch id big-endian, and a range over the index walks them in byte order -- i.e. by
   (length of user, user bytes, batch id).  AllUnstakeRequests{,V2} start after the key ("", start_after). *)
Definition req_index_le (a b : request) : bool :=
  let la := slen (r_user a) in
  let lb := slen (r_user b) in
  if la <? lb then true
  else if lb <? la then false
  else match String.compare (r_user a) (r_user b) with
       | Lt => true
       | Gt => false
       | Eq => r_batch a <=? r_batch b
       end.
Fixpoint rinsert (r : request) (l : list request) : list request :=
  match l with
  | [] => [r]
  | x :: t => if req_index_le r x then r :: l else x :: rinsert r t
  end.
Definition by_user_index (l : list request) : list request := fold_right rinsert [] l.
Definition after_index_cursor (c : option N) (l : list request) : list request :=
  match c with
  | None => l
  | Some k => filter (fun r => negb ((slen (r_user r) =? 0) && (r_batch r <=? k))) l
  end.
Definition all_requests (rs : list request) (start_after limit : option N) : list request :=
  take_n (opt_default u32_max limit) (after_index_cursor start_after (by_user_index rs)).

Section Model.
  Variable be : backend.
  Variable valid_addr : string -> string -> bool.               (* helpers::validate_address *)
  Variable derive : string -> string -> string -> option string. (* helpers::derive_intermediate_sender *)
  Variable api_valid : string -> bool.                           (* deps.api.addr_validate *)

  Fixpoint validate_addresses (l : list string) (prefix : string) (seen : list string) : bool :=
    match l with
    | [] => true
    | a :: r => valid_addr a prefix && negb (mem_str a seen) && validate_addresses r prefix (a :: seen)
    end.

  (* types.rs *)
  Definition validate_native (u : unsafe_native) : option native_cfg :=
    match validate_address_prefix (un_prefix u), validate_address_prefix (un_valprefix u),
          validate_denom (un_denom u) with
    | Some p, Some vp, Some d =>
        if validate_addresses (un_validators u) (un_valprefix u) []
           && valid_addr (un_staker u) (un_prefix u) && valid_addr (un_collector u) (un_prefix u)
        then Some {| nc_prefix := p; nc_valprefix := vp; nc_denom := d; nc_validators := un_validators u;
                     nc_unbonding := un_unbonding u; nc_staker := un_staker u; nc_collector := un_collector u |}
        else None
    | _, _, _ => None
    end.

  Definition validate_protocol (u : unsafe_protocol) : option protocol_cfg :=
    if negb (valid_channel (up_channel u)) then None
    else match validate_address_prefix (up_prefix u), validate_ibc_denom (up_denom u) with
         | Some p, Some d =>
             if match up_oracle u with Some o => valid_addr o (up_prefix u) | None => true end
             then Some {| pc_prefix := p; pc_channel := up_channel u; pc_denom := d; pc_min := up_min u;
                          pc_oracle := up_oracle u |}
             else None
         | _, _ => None
         end.

  Definition validate_fee (u : unsafe_fee) (p : protocol_cfg) : option fee_cfg :=
    if match uf_treasury u with Some t => valid_addr t (pc_prefix p) | None => true end
    then Some {| fee_rate := uf_rate u; fee_treasury := uf_treasury u |}
    else None.

  (* ---------- instantiate (contract.rs) ---------- *)
  Definition new_batch (id t : N) : batch :=
    {| b_id := id; b_total := 0; b_expected := None; b_received := None; b_count := Some 0;
       b_time := Some t; b_status := Pending |}.

  Definition instantiate (e : env) (i : info) (m : instantiate_msg) : result (store * response) :=
    do n <- of_opt_err (validate_native (im_native m)) EStd;
    do p <- of_opt_err (validate_protocol (im_protocol m)) EStd;
    do f <- of_opt_err (validate_fee (im_fee m) p) EStd;
    do sub <- of_opt_err (validate_denom (im_lst m)) EStd;
    check validate_addresses (im_monitors m) (up_prefix (im_protocol m)) [] else EStd;
    do t <- of_opt_err (deadline (now_s e) (im_batch_period m)) EOverflow;
    let c := {| native := n; protocol := p; fees := f;
                lst_denom := "factory/" ++ self e ++ "/" ++ sub;
                monitors := im_monitors m; batch_period := im_batch_period m; stopped := true |} in
    let x := {| total_native := 0; total_lst := 0; total_reward := 0; total_fees := 0;
                pending_owner := None; owner_min_time := None |} in
    Ok ({| cfg := c; st := x; admin := Some (sender i); batches := [(1, new_batch 1 t)]; pending_id := 1;
           requests := []; inflight := []; waitq := []; version := (CONTRACT_NAME, CONTRACT_VERSION) |},
        [plain (ACreateDenom (self e) (im_lst m))]).

  (* ---------- execute.rs ---------- *)
  (* ibc_transfer_sub_msg: returns the store with the waiting entry and the sub-message *)
  Definition ibc_sub (s : store) (e : env) (receiver : string) (c : coin) (id : option N)
    : result (store * submsg) :=
    check negb (slen (pc_channel (protocol (cfg s))) =? 0) else EChannelNotFound;
    do timeout <- of_opt (add64 (now_ns e) IBC_TIMEOUT_NS) 42;
    do sid <- match id with
              | Some k => Ok k
              | None => match txi e with
                        | Some t => of_opt (add64 t (now_ns e)) 70
                        | None => Ok (now_ns e)
                        end
              end;
    match nfind sid (waitq s) with
    | Some _ => Err EContractLocked
    | None =>
        Ok (set_waitq s (ninsert sid {| w_coin := c; w_receiver := receiver |} (waitq s)),
            {| sm_id := sid;
               sm_msg := ATransfer (pc_channel (protocol (cfg s))) receiver c (self e) timeout (ibc_memo (self e));
               sm_reply := true |})
    end.

  (* update_oracle_msgs: one post of the rates of [x] when an oracle is configured *)
  Definition oracle_msgs (s : store) (e : env) : result (list submsg) :=
    match pc_oracle (protocol (cfg s)) with
    | None => Ok []
    | Some o =>
        do rp <- of_opt (get_rates (st s)) 92;
        Ok [plain (AOracle (self e) o (lst_denom (cfg s)) (dec_to_string (snd rp)) (dec_to_string (fst rp)))]
    end.

  Definition check_stopped (s : store) : result unit := if stopped (cfg s) then Err EHalted else Ok tt.

  Definition execute_liquid_stake (s : store) (e : env) (i : info) (amount : N)
      (mint_to : option string) (to_native : option bool) (expected : option N) : result (store * response) :=
    let c := cfg s in
    do _ <- check_stopped s;
    do _ <- match mint_to with
            | Some _ => Ok tt
            | None => if slen (sender i) <? slen (pc_prefix (protocol c)) then Panic 145
                      else if slen (sender i) - slen (pc_prefix (protocol c)) =? 39 then Ok tt
                      else Err EMissingMintAddress
            end;
    let addr := opt_default (sender i) mint_to in
    let is_native0 := valid_addr addr (nc_prefix (native c)) in
    let is_protocol0 := valid_addr addr (pc_prefix (protocol c)) in
    check is_native0 || is_protocol0 else EInvalidAddress;
    let is_protocol := if is_native0 && is_protocol0 then negb (opt_default false to_native) else is_protocol0 in
    check pc_min (protocol c) <=? amount else EMinStake;
    let x := st s in
    (* ownerless stake is swept to the fee balance *)
    do x1 <- (if (total_lst x =? 0) && negb (total_native x =? 0)
              then do f <- of_opt (add128 (total_fees x) (total_native x)) 192;
                   Ok (set_totals x 0 (total_lst x) (total_reward x) f)
              else Ok x);
    do mint <- of_opt (compute_mint (total_native x1) (total_lst x1) amount) 197;
    check negb (mint =? 0) else EMintError;
    check match expected with Some ex => ex <=? mint | None => true end else EMintMismatch;
    let mint_msg := plain (AMint (self e) {| c_denom := lst_denom c; c_amount := mint |} (self e)) in
    do r1 <- ibc_sub s e (nc_staker (native c)) {| c_denom := pc_denom (protocol c); c_amount := amount |} None;
    let '(s1, stake_sub) := r1 in
    do n' <- of_opt (add128 (total_native x1) amount) 242;
    do l' <- of_opt (add128 (total_lst x1) mint) 243;
    let s2 := set_st s1 (set_totals x1 n' l' (total_reward x1) (total_fees x1)) in
    do om <- oracle_msgs s2 e;
    if is_protocol then
      Ok (s2, ([mint_msg] ++ om ++ [stake_sub]
              ++ [plain (ASend (self e) addr {| c_denom := lst_denom c; c_amount := mint |})])%list)
    else
      do id2 <- of_opt (add64 (sm_id stake_sub) 1) 274;
      do r2 <- ibc_sub s2 e addr {| c_denom := lst_denom c; c_amount := mint |} (Some id2);
      let '(s3, lst_sub) := r2 in
      Ok (s3, ([mint_msg] ++ om ++ [stake_sub] ++ [lst_sub])%list).

  Definition execute_liquid_unstake (s : store) (e : env) (i : info) (amount : N) : result (store * response) :=
    do _ <- check_stopped s;
    let p := pending_id s in
    do is_new <- match find_request p (sender i) (requests s) with
                 | Some r => do _ <- of_opt (add128 (r_amount r) amount) 310; Ok false
                 | None => Ok true
                 end;
    let rs := if is_new then (requests s ++ [{| r_batch := p; r_user := sender i; r_amount := amount |}])%list
              else add_to_request p (sender i) amount (requests s) in
    do b <- of_opt (nfind p (batches s)) 327;
    do t <- of_opt (add128 (b_total b) amount) 328;
    do cnt <- (if is_new then do k <- of_opt (add64 (opt_default 0 (b_count b)) 1) 330; Ok (Some k)
               else Ok (b_count b));
    let b' := {| b_id := b_id b; b_total := t; b_expected := b_expected b; b_received := b_received b;
                 b_count := cnt; b_time := b_time b; b_status := b_status b |} in
    Ok (set_batches (set_requests s rs) (ninsert p b' (batches s)), []).

  Definition execute_submit_batch (s : store) (e : env) : result (store * response) :=
    let c := cfg s in
    do _ <- check_stopped s;
    let p := pending_id s in
    do b <- of_opt_err (nfind p (batches s)) ENotFound;
    do _ <- match b_time b with
            | Some t => if now_s e <? t then Err EBatchNotReady else Ok tt
            | None => Err EBatchNotReady
            end;
    check batch_has_request p (requests s) else EBatchEmpty;
    let x := st s in
    check b_total b <=? total_lst x else EInvalidUnstake;
    do nid <- of_opt (add64 (b_id b) 1) 397;
    do nt <- of_opt_err (deadline (now_s e) (batch_period c)) EOverflow;
    let s1 := set_pending_id (set_batches s (ninsert nid (new_batch nid nt) (batches s))) nid in
    let burn := plain (ABurn (self e) {| c_denom := lst_denom c; c_amount := b_total b |} (self e)) in
    do unbond <- of_opt (compute_unbond (total_native x) (total_lst x) (b_total b)) 417;
    let x' := set_totals x (total_native x - unbond) (total_lst x - b_total b) (total_reward x) (total_fees x) in
    do at_ <- of_opt_err (deadline (now_s e) (nc_unbonding (native c))) EOverflow;
    let b' := {| b_id := b_id b; b_total := b_total b; b_expected := Some unbond; b_received := b_received b;
                 b_count := b_count b; b_time := Some at_; b_status := Submitted |} in
    let s2 := set_batches (set_st s1 x') (ninsert (b_id b) b' (batches s1)) in
    do om <- oracle_msgs s2 e;
    Ok (s2, ([burn] ++ om)%list).

  Definition execute_withdraw (s : store) (e : env) (i : info) (id : N) : result (store * response) :=
    let c := cfg s in
    do _ <- check_stopped s;
    do b <- of_opt_err (nfind id (batches s)) EBatchEmpty;
    check bstatus_eqb (b_status b) Received else ETokensAlreadyClaimed;
    do recv <- of_opt (b_received b) 479;
    do r <- of_opt_err (find_request (b_id b) (sender i) (requests s)) ENoRequest;
    do amount <- of_opt (mul_ratio recv (r_amount r) (b_total b)) 489;
    let s1 := set_requests s (remove_request (b_id b) (sender i) (requests s)) in
    do om <- oracle_msgs s1 e;
    Ok (s1, ([plain (ASend (self e) (sender i) {| c_denom := pc_denom (protocol c); c_amount := amount |})] ++ om)%list).

  Definition assert_admin (s : store) (i : info) : result unit :=
    if is_admin s (sender i) then Ok tt else Err EAdmin.

  Definition set_validators (c : config) (v : list string) : config :=
    let n := native c in
    {| native := {| nc_prefix := nc_prefix n; nc_valprefix := nc_valprefix n; nc_denom := nc_denom n;
                    nc_validators := v; nc_unbonding := nc_unbonding n; nc_staker := nc_staker n;
                    nc_collector := nc_collector n |};
       protocol := protocol c; fees := fees c; lst_denom := lst_denom c; monitors := monitors c;
       batch_period := batch_period c; stopped := stopped c |}.

  Definition execute_add_validator (s : store) (i : info) (v : string) : result (store * response) :=
    do _ <- assert_admin s i;
    check valid_addr v (nc_valprefix (native (cfg s))) else EStd;
    check negb (mem_str v (nc_validators (native (cfg s)))) else EDuplicateValidator;
    Ok (set_cfg s (set_validators (cfg s) (nc_validators (native (cfg s)) ++ [v])%list), []).

  Definition execute_remove_validator (s : store) (i : info) (v : string) : result (store * response) :=
    do _ <- assert_admin s i;
    check valid_addr v (nc_valprefix (native (cfg s))) else EStd;
    check mem_str v (nc_validators (native (cfg s))) else EValidatorNotFound;
    Ok (set_cfg s (set_validators (cfg s) (remove_first_str v (nc_validators (native (cfg s))))), []).

  (* now_s <= 2^64 / 10^9, so the u64 addition of seven days cannot overflow *)
  Definition execute_transfer_ownership (s : store) (e : env) (i : info) (o : string) : result (store * response) :=
    do _ <- assert_admin s i;
    check api_valid o else EStd;
    Ok (set_st s (set_owner (st s) (Some o) (Some (now_s e + OWNER_DELAY_S))), []).

  Definition execute_revoke_ownership (s : store) (i : info) : result (store * response) :=
    do _ <- assert_admin s i;
    Ok (set_st s (set_owner (st s) None None), []).

  Definition execute_accept_ownership (s : store) (e : env) (i : info) : result (store * response) :=
    let x := st s in
    check match owner_min_time x with Some t => negb (now_s e <? t) | None => true end else EOwnershipNotReady;
    match pending_owner x with
    | Some p => if String.eqb p (sender i)
                then Ok (set_admin (set_st s (set_owner x None (owner_min_time x))) (Some p), [])
                else Err ENoPendingOwner
    | None => Err ENoPendingOwner
    end.

  Fixpoint load_selected (ids : list N) (m : nmap packet) (receiver : string) (acc : list packet)
    : result (list packet) :=
    match ids with
    | [] => Ok (rev acc)
    | k :: r =>
        match nfind k m with
        | None => Err ENotFound
        | Some p =>
            if negb (String.eqb (p_receiver p) receiver) then Err EInvalidReceiver
            else if existsb (fun q => p_seq q =? p_seq p) acc then Err EDuplicatePacket
            else load_selected r m receiver (p :: acc)
        end
    end.

  Fixpoint sum_packets (ps : list packet) (acc : N) : option N :=
    match ps with
    | [] => Some acc
    | p :: r => match add128 acc (c_amount (p_coin p)) with Some a => sum_packets r a | None => None end
    end.

  Definition recover (s : store) (e : env) (i : info) (selected : option (list N))
      (receiver : option string) (page : bool) : result (store * response) :=
    let c := cfg s in
    do _ <- match selected with Some _ => assert_admin s i | None => Ok tt end;
    do rcv <- match receiver with
              | Some r => if valid_addr r (nc_prefix (native c)) then Ok r else Err EStd
              | None => Ok (nc_staker (native c))
              end;
    do ps <- match selected with
             | Some ids => load_selected ids (inflight s) rcv []
             | None => Ok (paginate (inflight s) None (if page then Some PAGE_SIZE else None)
                             (fun p => String.eqb (p_receiver p) rcv && refundable (p_status p)))
             end;
    match ps with
    | [] => Err ENoInflight
    | p0 :: rest =>
        check forallb (fun p => String.eqb (c_denom (p_coin p)) (c_denom (p_coin p0))) rest else EInconsistentDenom;
        do maxid <- of_opt (nlast_key (inflight s)) 751;
        let s1 := set_inflight s (fold_left (fun m p => nremove (p_seq p) m) ps (inflight s)) in
        do total <- of_opt (sum_packets ps 0) 760;
        do id <- of_opt (add64 maxid 1) 771;
        do r <- ibc_sub s1 e rcv {| c_denom := c_denom (p_coin p0); c_amount := total |} (Some id);
        let '(s2, sub) := r in
        Ok (s2, [sub])
    end.

  Definition update_config (s : store) (i : info) (n : option unsafe_native) (p : option unsafe_protocol)
      (f : option unsafe_fee) (m : option (list string)) (bp : option N) : result (store * response) :=
    do _ <- assert_admin s i;
    let c := cfg s in
    do n' <- match n with Some u => of_opt_err (validate_native u) EStd | None => Ok (native c) end;
    do p' <- match p with Some u => of_opt_err (validate_protocol u) EStd | None => Ok (protocol c) end;
    do f' <- match f with Some u => of_opt_err (validate_fee u p') EStd | None => Ok (fees c) end;
    do m' <- match m with
             | Some l => if validate_addresses l (pc_prefix p') [] then Ok l else Err EStd
             | None => Ok (monitors c)
             end;
    Ok (set_cfg s {| native := n'; protocol := p'; fees := f'; lst_denom := lst_denom c; monitors := m';
                     batch_period := opt_default (batch_period c) bp; stopped := stopped c |}, []).

  Definition hook_sender_ok (s : store) (native_sender : string) (i : info) : bool :=
    match derive (pc_channel (protocol (cfg s))) native_sender (pc_prefix (protocol (cfg s))) with
    | Some a => String.eqb (sender i) a
    | None => false
    end.

  Definition receive_rewards (s : store) (e : env) (i : info) : result (store * response) :=
    let c := cfg s in
    let x := st s in
    do _ <- check_stopped s;
    check negb (total_lst x =? 0) else ENoLiquidStake;
    check hook_sender_ok s (nc_collector (native c)) i else EUnauthorized;
    do coin_ <- of_opt_err (find_coin (pc_denom (protocol c)) (funds i)) EPayment;
    let amount := c_amount coin_ in
    do fee <- of_opt_err (mul_ratio (fee_rate (fees c)) amount FEE_DENOM) EOverflow;
    do after <- of_opt_err (sub_checked amount fee) ERewardsTooSmall;
    do n' <- of_opt (add128 (total_native x) after) 873;
    do r' <- of_opt (add128 (total_reward x) amount) 874;
    do f' <- match fee_treasury (fees c) with
             | None => of_opt (add128 (total_fees x) fee) 876
             | Some _ => Ok (total_fees x)
             end;
    let s1 := set_st s (set_totals x n' (total_lst x) r' f') in
    do r <- ibc_sub s1 e (nc_staker (native c)) {| c_denom := pc_denom (protocol c); c_amount := after |} None;
    let '(s2, sub) := r in
    do om <- oracle_msgs s2 e;
    Ok (s2, (om ++ [sub] ++ match fee_treasury (fees c) with
                           | Some t => [plain (ABankSend t {| c_denom := pc_denom (protocol c); c_amount := fee |})]
                           | None => []
                           end)%list).

  Definition receive_unstaked_tokens (s : store) (e : env) (i : info) (id : N) : result (store * response) :=
    let c := cfg s in
    do _ <- check_stopped s;
    check hook_sender_ok s (nc_staker (native c)) i else EUnauthorized;
    do coin_ <- of_opt_err (find_coin (pc_denom (protocol c)) (funds i)) EPayment;
    do b <- of_opt_err (nfind id (batches s)) ENotFound;
    check bstatus_eqb (b_status b) Submitted else EBatchNotClaimable;
    do t <- of_opt_err (b_time b) EBatchNotClaimable;
    check negb (now_s e <? t) else EBatchNotReady;
    let b' := {| b_id := b_id b; b_total := b_total b; b_expected := b_expected b;
                 b_received := Some (c_amount coin_); b_count := b_count b; b_time := None; b_status := Received |} in
    Ok (set_batches s (ninsert (b_id b) b' (batches s)), []).

  Definition circuit_breaker (s : store) (i : info) : result (store * response) :=
    check is_admin s (sender i) || mem_str (sender i) (monitors (cfg s)) else EUnauthorized;
    Ok (set_cfg s (set_stopped (cfg s) true), []).

  Definition resume_contract (s : store) (e : env) (i : info) (n l r : N) : result (store * response) :=
    do _ <- assert_admin s i;
    let s1 := set_st (set_cfg s (set_stopped (cfg s) false)) (set_totals (st s) n l r (total_fees (st s))) in
    do om <- oracle_msgs s1 e;
    Ok (s1, om).

  Definition fee_withdraw (s : store) (e : env) (i : info) (amount : N) : result (store * response) :=
    do _ <- assert_admin s i;
    let x := st s in
    check amount <=? total_fees x else EInsufficientFunds;
    do t <- of_opt_err (fee_treasury (fees (cfg s))) ETreasuryNotConfigured;
    Ok (set_st s (set_totals x (total_native x) (total_lst x) (total_reward x) (total_fees x - amount)),
        [plain (ASend (self e) t {| c_denom := pc_denom (protocol (cfg s)); c_amount := amount |})]).

  Definition execute (s : store) (e : env) (i : info) (m : execute_msg) : result (store * response) :=
    match m with
    | LiquidStake mint_to to_native expected =>
        do a <- must_pay i (pc_denom (protocol (cfg s)));
        execute_liquid_stake s e i a mint_to to_native expected
    | LiquidUnstake =>
        do a <- must_pay i (lst_denom (cfg s));
        execute_liquid_unstake s e i a
    | SubmitBatch => execute_submit_batch s e
    | Withdraw id => execute_withdraw s e i id
    | AddValidator v => execute_add_validator s i v
    | RemoveValidator v => execute_remove_validator s i v
    | TransferOwnership o => execute_transfer_ownership s e i o
    | AcceptOwnership => execute_accept_ownership s e i
    | RevokeOwnershipTransfer => execute_revoke_ownership s i
    | UpdateConfig n p f mo bp => update_config s i n p f mo bp
    | ReceiveRewards => receive_rewards s e i
    | ReceiveUnstakedTokens id => receive_unstaked_tokens s e i id
    | CircuitBreaker => circuit_breaker s i
    | ResumeContract n l r => resume_contract s e i n l r
    | RecoverPendingIbcTransfers pg sel rcv => recover s e i sel rcv (opt_default false pg)
    | FeeWithdraw a => fee_withdraw s e i a
    end.

  (* ---------- reply / sudo (contract.rs, ibc.rs) ---------- *)
  Definition reply (s : store) (id : N) (r : reply_result) : result (store * response) :=
    match nfind id (waitq s) with
    | None => Err EInvalidReplyID
    | Some w =>
        match r with
        | ROk seq =>
            Ok (set_inflight (set_waitq s (nremove id (waitq s)))
                  (ninsert seq {| p_seq := seq; p_coin := w_coin w; p_receiver := w_receiver w; p_status := Sent |}
                     (inflight s)), [])
        | _ => Err EFailedIBC
        end
    end.

  Definition set_pstatus (p : packet) (x : pstatus) : packet :=
    {| p_seq := p_seq p; p_coin := p_coin p; p_receiver := p_receiver p; p_status := x |}.

  Definition sudo (s : store) (m : sudo_msg) : result (store * response) :=
    match m with
    | SAck ch seq success =>
        if negb (String.eqb ch (pc_channel (protocol (cfg s)))) then Ok (s, [])
        else match nfind seq (inflight s) with
             | None => Ok (s, [])
             | Some p =>
                 if success then Ok (set_inflight s (nremove seq (inflight s)), [])
                 else Ok (set_inflight s (ninsert seq (set_pstatus p AckFailure) (inflight s)), [])
             end
    | STimeout ch seq =>
        if negb (String.eqb ch (pc_channel (protocol (cfg s)))) then Ok (s, [])
        else match nfind seq (inflight s) with
             | None => Ok (s, [])
             | Some p => Ok (set_inflight s (ninsert seq (set_pstatus p TimedOut) (inflight s)), [])
             end
    end.

  (* ---------- query.rs ---------- *)
  Definition batch_to_response (b : batch) : result batch_response :=
    (* Timestamp::from_seconds multiplies by 10^9 in u64 *)
    let t := opt_default 0 (b_time b) * 1000000000 in
    if u64_max <? t then Panic 57
    else Ok {| br_id := b_id b; br_total := b_total b; br_expected := opt_default 0 (b_expected b);
               br_received := opt_default 0 (b_received b); br_count := opt_default 0 (b_count b);
               br_time_ns := t; br_status := b_status b |}.

  Fixpoint map_result {A B} (f : A -> result B) (l : list A) : result (list B) :=
    match l with
    | [] => Ok []
    | x :: r => do y <- f x; do ys <- map_result f r; Ok (y :: ys)
    end.

  Definition query (s : store) (q : query_msg) : result query_response :=
    match q with
    | QConfig => Ok (RConfig (cfg s))
    | QState =>
        do rp <- of_opt (get_rates (st s)) 29;
        Ok (RState (total_native (st s)) (total_lst (st s)) (snd rp)
              (opt_default "" (pending_owner (st s))) (total_reward (st s)) (total_fees (st s)))
    | QBatch id =>
        do b <- of_opt_err (nfind id (batches s)) ENotFound;
        do r <- batch_to_response b; Ok (RBatch r)
    | QBatches sa lim status =>
        do rs <- map_result batch_to_response
                   (paginate (batches s) sa lim
                      (fun b => match status with Some x => bstatus_eqb (b_status b) x | None => true end));
        Ok (RBatches rs)
    | QBatchesByIds ids =>
        do rs <- map_result batch_to_response
                   (flat_map (fun k => match nfind k (batches s) with Some b => [b] | None => [] end) ids);
        Ok (RBatches rs)
    | QPendingBatch =>
        do b <- of_opt_err (nfind (pending_id s) (batches s)) ENotFound;
        do r <- batch_to_response b; Ok (RBatch r)
    | QUnstakeRequests u => Ok (RRequests (filter (fun r => String.eqb (r_user r) u) (requests s)))
    | QIbcQueue sa lim => Ok (RIbcQueue (paginate (inflight s) sa lim (fun _ => true)))
    | QIbcReplyQueue sa lim => Ok (RReplyQueue (paginate (waitq s) sa lim (fun _ => true)))
    | QAllRequests sa lim | QAllRequestsV2 sa lim => Ok (RRequests (all_requests (requests s) sa lim))
    end.
End Model.
