(* Crypto.v — executable SHA-256 (FIPS 180-4) and bech32 (BIP-173, mirroring the Rust crate
   bech32 0.9.1), plus the ibc-hooks intermediate-sender derivation of helpers.rs.
   Bytes are ascii; 32-bit words and 5-bit groups are N. *)
From MW Require Export Base.
Open Scope N_scope.

(* ================= SHA-256 ================= *)
Definition w32 : N := 4294967296.
Definition add32 (a b : N) : N := (a + b) mod w32.
Definition rotr (x n : N) : N := N.lor (N.shiftr x n) ((N.shiftl x (32 - n)) mod w32).
Definition shr (x n : N) : N := N.shiftr x n.
Definition bnot32 (x : N) : N := w32 - 1 - x.
Definition ch (x y z : N) : N := N.lxor (N.land x y) (N.land (bnot32 x) z).
Definition maj (x y z : N) : N := N.lxor (N.lxor (N.land x y) (N.land x z)) (N.land y z).
Definition bsig0 (x : N) : N := N.lxor (N.lxor (rotr x 2) (rotr x 13)) (rotr x 22).
Definition bsig1 (x : N) : N := N.lxor (N.lxor (rotr x 6) (rotr x 11)) (rotr x 25).
Definition ssig0 (x : N) : N := N.lxor (N.lxor (rotr x 7) (rotr x 18)) (shr x 3).
Definition ssig1 (x : N) : N := N.lxor (N.lxor (rotr x 17) (rotr x 19)) (shr x 10).

Definition sha_K : list N :=
  [1116352408; 1899447441; 3049323471; 3921009573; 961987163; 1508970993; 2453635748; 2870763221;
   3624381080; 310598401; 607225278; 1426881987; 1925078388; 2162078206; 2614888103; 3248222580;
   3835390401; 4022224774; 264347078; 604807628; 770255983; 1249150122; 1555081692; 1996064986;
   2554220882; 2821834349; 2952996808; 3210313671; 3336571891; 3584528711; 113926993; 338241895;
   666307205; 773529912; 1294757372; 1396182291; 1695183700; 1986661051; 2177026350; 2456956037;
   2730485921; 2820302411; 3259730800; 3345764771; 3516065817; 3600352804; 4094571909; 275423344;
   430227734; 506948616; 659060556; 883997877; 958139571; 1322822218; 1537002063; 1747873779;
   1955562222; 2024104815; 2227730452; 2361852424; 2428436474; 2756734187; 3204031479; 3329325298].
Definition sha_H0 : list N :=
  [1779033703; 3144134277; 1013904242; 2773480762; 1359893119; 2600822924; 528734635; 1541459225].

(* big-endian bytes <-> words *)
Fixpoint be_words (bs : list N) : list N :=
  match bs with
  | a :: b :: c :: d :: r => (((a * 256 + b) * 256 + c) * 256 + d) :: be_words r
  | _ => []
  end.
Definition word_bytes (w : N) : list N :=
  [w / 16777216 mod 256; w / 65536 mod 256; w / 256 mod 256; w mod 256].
Definition be64_bytes (n : N) : list N :=
  [n / 72057594037927936 mod 256; n / 281474976710656 mod 256; n / 1099511627776 mod 256;
   n / 4294967296 mod 256; n / 16777216 mod 256; n / 65536 mod 256; n / 256 mod 256; n mod 256].

Definition sha_pad (msg : list N) : list N :=
  let l := N.of_nat (List.length msg) in
  let k := (119 - l mod 64) mod 64 in   (* zero bytes so that l + 1 + k = 56 (mod 64) *)
  msg ++ [128] ++ repeat 0 (N.to_nat k) ++ be64_bytes (l * 8).

(* message schedule: ws holds w[t-1], w[t-2], ... (most recent first) *)
Definition next_w (ws : list N) : N :=
  add32 (add32 (ssig1 (nth 1 ws 0)) (nth 6 ws 0)) (add32 (ssig0 (nth 14 ws 0)) (nth 15 ws 0)).
Fixpoint extend_w (n : nat) (ws : list N) : list N :=
  match n with O => ws | S k => extend_w k (next_w ws :: ws) end.
Definition schedule (block : list N) : list N := rev (extend_w 48 (rev block)).

Definition round (st : list N) (kw : N * N) : list N :=
  match st with
  | [a; b; c; d; e; f; g; h] =>
      let t1 := add32 (add32 (add32 h (bsig1 e)) (add32 (ch e f g) (fst kw))) (snd kw) in
      let t2 := add32 (bsig0 a) (maj a b c) in
      [add32 t1 t2; a; b; c; add32 d t1; e; f; g]
  | _ => st
  end.

Fixpoint map2 (f : N -> N -> N) (a b : list N) : list N :=
  match a, b with x :: a', y :: b' => f x y :: map2 f a' b' | _, _ => [] end.

Definition compress (h : list N) (block : list N) : list N :=
  map2 add32 h (fold_left round (combine sha_K (schedule block)) h).

Fixpoint blocks (n : nat) (ws : list N) : list (list N) :=
  match n with
  | O => []
  | S k => match ws with [] => [] | _ => firstn 16 ws :: blocks k (skipn 16 ws) end
  end.

Definition sha256_bytes (msg : list N) : list N :=
  let ws := be_words (sha_pad msg) in
  flat_map word_bytes (fold_left compress (blocks (S (List.length ws)) ws) sha_H0).

Fixpoint str_bytes (s : string) : list N :=
  match s with EmptyString => [] | String c r => code c :: str_bytes r end.
Fixpoint bytes_str (l : list N) : string :=
  match l with [] => EmptyString | b :: r => String (ascii_of_N b) (bytes_str r) end.

Definition sha256 (s : string) : list N := sha256_bytes (str_bytes s).

(* ================= bech32 ================= *)
Definition b32_charset : string := "qpzry9x8gf2tvdw0s3jn54khce6mua7l".
Definition b32_gen : list N := [996825010; 642813549; 513874426; 1027748829; 705979059].
Definition BECH32_CONST : N := 1.
Definition BECH32M_CONST : N := 734539939.

Definition polymod_step (chk v : N) : N :=
  let b := N.shiftr chk 25 in
  let c := N.lxor (N.shiftl (N.land chk 33554431) 5) v in
  fst (fold_left (fun (acc : N * N) g =>
                    let '(c, i) := acc in
                    ((if N.testbit b i then N.lxor c g else c), i + 1))
                 b32_gen (c, 0)).
Definition polymod (vs : list N) : N := fold_left polymod_step vs 1.

Definition hrp_expand (hrp : string) : list N :=
  map (fun b => N.shiftr b 5) (str_bytes hrp) ++ [0] ++ map (fun b => N.land b 31) (str_bytes hrp).

Definition b32_checksum (hrp : string) (data : list N) (const : N) : list N :=
  let pm := N.lxor (polymod (hrp_expand hrp ++ data ++ [0; 0; 0; 0; 0; 0])) const in
  map (fun i => N.land (N.shiftr pm (5 * (5 - i))) 31) [0; 1; 2; 3; 4; 5].

Definition b32_char (v : N) : ascii :=
  match String.get (N.to_nat v) b32_charset with Some c => c | None => "q"%char end.
Fixpoint index_of (c : ascii) (s : string) (i : N) : option N :=
  match s with
  | EmptyString => None
  | String d r => if Ascii.eqb c d then Some i else index_of c r (i + 1)
  end.
(* CHARSET_REV: both cases of the 32 characters map to their value *)
Definition b32_rev (c : ascii) : option N := index_of (to_lower c) b32_charset 0.

Inductive hcase := CUpper | CLower | CNone.
(* check_hrp *)
Definition check_hrp (hrp : string) : option hcase :=
  if (slen hrp =? 0) || (83 <? slen hrp) then None
  else if negb (str_forall (fun c => (33 <=? code c) && (code c <=? 126)) hrp) then None
  else let lo := str_exists is_lower hrp in
       let up := str_exists is_upper hrp in
       if lo && up then None
       else Some (if up then CUpper else if lo then CLower else CNone).

Definition b32_encode (hrp : string) (data : list N) (const : N) : option string :=
  match check_hrp hrp with
  | None => None
  | Some cs =>
      let h := match cs with CUpper => lowercase hrp | _ => hrp end in
      Some (h ++ "1" ++ bytes_str (map (fun v => code (b32_char v)) (data ++ b32_checksum h data const)))%string
  end.

(* position of the last '1' *)
Fixpoint rfind_sep (s : string) (i : nat) (last : option nat) : option nat :=
  match s with
  | EmptyString => last
  | String c r => rfind_sep r (S i) (if Ascii.eqb c "1"%char then Some i else last)
  end.

Fixpoint decode_data (s : string) (cs : hcase) (acc : list N) : option (list N) :=
  match s with
  | EmptyString => Some (rev acc)
  | String c r =>
      if 128 <=? code c then None
      else
        let cs' := if is_lower c then match cs with CUpper => None | _ => Some CLower end
                   else if is_upper c then match cs with CLower => None | _ => Some CUpper end
                   else Some cs in
        match cs', b32_rev c with
        | Some k, Some v => decode_data r k (v :: acc)
        | _, _ => None
        end
  end.

(* bech32::decode: lower-cased hrp, data without checksum, checksum constant *)
Definition b32_decode (s : string) : option (string * list N * N) :=
  match rfind_sep s 0 None with
  | None => None
  | Some pos =>
      let raw_hrp := substring 0 pos s in
      let raw_data := substring (S pos) (String.length s - S pos) s in
      match check_hrp raw_hrp with
      | None => None
      | Some cs =>
          let h := match cs with CUpper => lowercase raw_hrp | _ => raw_hrp end in
          match decode_data raw_data cs [] with
          | None => None
          | Some data =>
              if N.of_nat (List.length data) <? 6 then None
              else let pm := polymod (hrp_expand h ++ data) in
                   if (pm =? BECH32_CONST) || (pm =? BECH32M_CONST)
                   then Some (h, firstn (List.length data - 6) data, pm)
                   else None
          end
      end
  end.

(* ToBase32: regroup 8-bit bytes into 5-bit groups, big-endian, zero-padded (on bit lists, so that
   injectivity is a list argument rather than shift arithmetic) *)
Definition byte_bits (b : N) : list bool :=
  [N.testbit b 7; N.testbit b 6; N.testbit b 5; N.testbit b 4; N.testbit b 3; N.testbit b 2; N.testbit b 1; N.testbit b 0].
Fixpoint chunk5 (bits : list bool) : list (list bool) :=
  match bits with
  | a :: b :: c :: d :: e :: r => [a; b; c; d; e] :: chunk5 r
  | [] => []
  | [a] => [[a; false; false; false; false]]
  | [a; b] => [[a; b; false; false; false]]
  | [a; b; c] => [[a; b; c; false; false]]
  | [a; b; c; d] => [[a; b; c; d; false]]
  end.
Definition bits_val (l : list bool) : N := fold_left (fun acc (b : bool) => 2 * acc + (if b then 1 else 0)) l 0.
Definition to_base32 (bs : list N) : list N := map bits_val (chunk5 (flat_map byte_bits bs)).

(* ================= contract helpers ================= *)
(* helpers::validate_address *)
Definition valid_addr (address prefix : string) : bool :=
  match b32_decode address with
  | Some (h, _, _) => String.eqb h prefix
  | None => false
  end.

Definition SENDER_PREFIX : string := "ibc-wasm-hook-intermediary".
(* helpers::addess_hash *)
Definition address_hash (typ : string) (key : string) : list N :=
  sha256_bytes (sha256 typ ++ str_bytes key).
(* helpers::derive_intermediate_sender *)
Definition derive (channel original_sender prefix : string) : option string :=
  b32_encode prefix
    (to_base32 (address_hash SENDER_PREFIX (channel ++ "/" ++ original_sender)%string)) BECH32_CONST.
