(* Concrete.v — the model instantiated with the Crypto functions, as run by the correspondence check. *)
From MW Require Export Staking Treasury Crypto Migrate.
Open Scope string_scope.
Open Scope N_scope.

Definition CHAIN_PREFIX : string := "osmo".
(* deps.api.addr_validate on the protocol chain (the harness installs an Api with this behaviour):
   a lower-case Bech32 string under the chain prefix *)
Definition api_valid (s : string) : bool :=
  match b32_decode s with
  | Some (h, _, c) => String.eqb h CHAIN_PREFIX && (c =? BECH32_CONST) && String.eqb s (lowercase s)
  | None => false
  end.

Definition c_instantiate := instantiate valid_addr.
Definition c_execute := execute valid_addr derive api_valid.
Definition c_reply := reply.
Definition c_sudo := sudo.
Definition c_query := query.
Definition c_tinstantiate := tinstantiate api_valid.
Definition c_texecute := texecute valid_addr api_valid.
Definition c_tquery := tquery.
Definition c_render := render.
Definition c_migrate := migrate valid_addr.

(* A pending batch in the layout of releases that had no request counter yet (`unstake_requests_count: None`): not a
   transition of the contract but a store an upgraded deployment can be in; used by the correspondence only. *)
Definition c_legacy_uncounted (s : store) : store :=
  match nfind (pending_id s) (batches s) with
  | Some b => set_batches s (ninsert (pending_id s)
                {| b_id := b_id b; b_total := b_total b; b_expected := b_expected b; b_received := b_received b;
                   b_count := None; b_time := b_time b; b_status := b_status b |} (batches s))
  | None => s
  end.
