(* driver.ml — runs the extracted Coq model on an op file and prints canonical observations.
   Trusted only for the correspondence check (parsing and printing); all logic is in Mwm (extracted). *)
module M = Mwm

(* ---------- conversions ---------- *)
let rec pos_of_z (z : Z.t) : M.positive =
  if Z.equal z Z.one then M.XH
  else if Z.testbit z 0 then M.XI (pos_of_z (Z.shift_right z 1))
  else M.XO (pos_of_z (Z.shift_right z 1))
let n_of_z (z : Z.t) : M.n = if Z.sign z <= 0 then M.N0 else M.Npos (pos_of_z z)
let rec z_of_pos = function
  | M.XH -> Z.one
  | M.XO p -> Z.shift_left (z_of_pos p) 1
  | M.XI p -> Z.succ (Z.shift_left (z_of_pos p) 1)
let z_of_n = function M.N0 -> Z.zero | M.Npos p -> z_of_pos p
let n_of_dec (s : string) : M.n = n_of_z (Z.of_string s)
let dec_of_n (n : M.n) : string = Z.to_string (z_of_n n)

let ascii_of_char (c : char) : M.ascii =
  let k = Char.code c in
  let b i = (k lsr i) land 1 = 1 in
  M.Ascii (b 0, b 1, b 2, b 3, b 4, b 5, b 6, b 7)
let char_of_ascii (M.Ascii (b0, b1, b2, b3, b4, b5, b6, b7)) : char =
  let v b i = if b then 1 lsl i else 0 in
  Char.chr (v b0 0 + v b1 1 + v b2 2 + v b3 3 + v b4 4 + v b5 5 + v b6 6 + v b7 7)
let cstr (s : string) : M.string =
  let r = ref M.EmptyString in
  for i = String.length s - 1 downto 0 do r := M.String (ascii_of_char s.[i], !r) done;
  !r
let ostr (s : M.string) : string =
  let b = Buffer.create 64 in
  let rec go = function M.EmptyString -> () | M.String (c, r) -> Buffer.add_char b (char_of_ascii c); go r in
  go s; Buffer.contents b

let hex_of (s : string) : string =
  let b = Buffer.create (2 * String.length s + 1) in
  Buffer.add_char b 'x';
  String.iter (fun c -> Buffer.add_string b (Printf.sprintf "%02x" (Char.code c))) s;
  Buffer.contents b
let unhex (t : string) : string =
  if String.length t = 0 || t.[0] <> 'x' then failwith ("bad hex token: " ^ t);
  let n = (String.length t - 1) / 2 in
  String.init n (fun i -> Char.chr (int_of_string ("0x" ^ String.sub t (1 + 2 * i) 2)))

(* ---------- token parsing ---------- *)
let p_str t = cstr (unhex t)
let p_n t = n_of_dec t
let p_opt f t = if t = "-" then None else Some (f t)
let p_bool t = t = "1"
let split_on c s = if s = "" then [] else String.split_on_char c s
let p_list f t =
  let l = String.length t in
  if l < 2 || t.[0] <> '[' || t.[l - 1] <> ']' then failwith ("bad list: " ^ t);
  List.map f (split_on ',' (String.sub t 1 (l - 2)))
let p_coin t =
  match String.split_on_char ':' t with
  | [d; a] -> { M.c_denom = p_str d; c_amount = p_n a }
  | _ -> failwith ("bad coin: " ^ t)
let p_hop t =
  match String.split_on_char '/' t with
  | [p; i; o] -> { M.h_pool = p_n p; h_in = p_str i; h_out = p_str o }
  | _ -> failwith ("bad hop: " ^ t)
let p_route t = p_list p_hop t
let p_routes t =
  let l = String.length t in
  if l < 2 || t.[0] <> '{' || t.[l - 1] <> '}' then failwith ("bad routes: " ^ t);
  List.map p_route (split_on ';' (String.sub t 1 (l - 2)))
let p_rec t =
  let l = String.length t in
  if l < 2 || t.[0] <> '(' || t.[l - 1] <> ')' then failwith ("bad record: " ^ t);
  String.split_on_char ';' (String.sub t 1 (l - 2))
let p_native t =
  match p_rec t with
  | [a; b; c; d; e; f; g] ->
      { M.un_prefix = p_str a; un_valprefix = p_str b; un_denom = p_str c; un_validators = p_list p_str d;
        un_unbonding = p_n e; un_staker = p_str f; un_collector = p_str g }
  | _ -> failwith "bad native"
let p_protocol t =
  match p_rec t with
  | [a; b; c; d; e] ->
      { M.up_prefix = p_str a; up_denom = p_str b; up_channel = p_str c; up_min = p_n d; up_oracle = p_opt p_str e }
  | _ -> failwith "bad protocol"
let p_fee t =
  match p_rec t with
  | [a; b] -> { M.uf_rate = p_n a; uf_treasury = p_opt p_str b }
  | _ -> failwith "bad fee"
let p_status = function
  | "pending" -> M.Pending | "submitted" -> M.Submitted | "received" -> M.Received
  | s -> failwith ("bad status " ^ s)

(* ---------- printing ---------- *)
let s_str s = hex_of (ostr s)
let s_n = dec_of_n
let s_opt f = function None -> "-" | Some x -> f x
let s_list f l = "[" ^ String.concat "," (List.map f l) ^ "]"
let s_bool b = if b then "1" else "0"
let s_coin (c : M.coin) = s_str c.M.c_denom ^ ":" ^ s_n c.M.c_amount
let s_hop (h : M.hop) = s_n h.M.h_pool ^ "/" ^ s_str h.M.h_in ^ "/" ^ s_str h.M.h_out
let s_routes rs = "{" ^ String.concat ";" (List.map (s_list s_hop) rs) ^ "}"
let s_status = function M.Pending -> "pending" | M.Submitted -> "submitted" | M.Received -> "received"
let s_pstatus = function M.Sent -> "sent" | M.AckSuccess -> "ack_success" | M.AckFailure -> "ack_failure" | M.TimedOut -> "timed_out"

let out = ref stdout
let step = ref 0
let emit fmt = Printf.ksprintf (fun s -> output_string !out (Printf.sprintf "#%d %s\n" !step s)) fmt

let backend = ref M.Osmosis
let store : M.store option ref = ref None
let tstore : M.tstore option ref = ref None
let ttx_snap : M.tstore option option ref = ref None
let self_addr = ref (cstr "")
let mstore : M.mstore option ref = ref None
let msnap : M.mstore option ref = ref None
let tx_snap : M.store option option ref = ref None

let emit_msgs (r : M.response) =
  List.iteri (fun k (sm : M.submsg) ->
    let body = match M.c_render !backend sm.M.sm_msg with
      | M.CBank (to_, c) -> Printf.sprintf "bank %s %s" (s_str to_) (s_coin c)
      | M.CStargate (u, v) -> Printf.sprintf "stargate %s %s" (s_str u) (s_str v) in
    emit "msg %d %s %s %s" k (s_n sm.M.sm_id) (s_bool sm.M.sm_reply) body) r

let dump_config (c : M.config) pfx =
  let n = c.M.native and p = c.M.protocol and f = c.M.fees in
  emit "%scfg.native %s %s %s %s %s %s %s" pfx (s_str n.M.nc_prefix) (s_str n.M.nc_valprefix) (s_str n.M.nc_denom)
    (s_list s_str n.M.nc_validators) (s_n n.M.nc_unbonding) (s_str n.M.nc_staker) (s_str n.M.nc_collector);
  emit "%scfg.protocol %s %s %s %s %s" pfx (s_str p.M.pc_prefix) (s_str p.M.pc_channel) (s_str p.M.pc_denom)
    (s_n p.M.pc_min) (s_opt s_str p.M.pc_oracle);
  emit "%scfg.fee %s %s" pfx (s_n f.M.fee_rate) (s_opt s_str f.M.fee_treasury);
  emit "%scfg.misc %s %s %s %s" pfx (s_str c.M.lst_denom) (s_list s_str c.M.monitors) (s_n c.M.batch_period)
    (s_bool c.M.stopped)

let dump_store () =
  match !store with
  | None -> emit "st.none"
  | Some s ->
      dump_config s.M.cfg "st.";
      let x = s.M.st in
      emit "st.state %s %s %s %s %s %s" (s_n x.M.total_native) (s_n x.M.total_lst) (s_n x.M.total_reward)
        (s_n x.M.total_fees) (s_opt s_str x.M.pending_owner) (s_opt s_n x.M.owner_min_time);
      emit "st.admin %s" (s_opt s_str s.M.admin);
      emit "st.pending %s" (s_n s.M.pending_id);
      List.iter (fun (_, (b : M.batch)) ->
        emit "st.batch %s %s %s %s %s %s %s" (s_n b.M.b_id) (s_n b.M.b_total) (s_opt s_n b.M.b_expected)
          (s_opt s_n b.M.b_received) (s_opt s_n b.M.b_count) (s_opt s_n b.M.b_time) (s_status b.M.b_status)) s.M.batches;
      let reqs = List.map (fun (r : M.request) -> (z_of_n r.M.r_batch, ostr r.M.r_user, r.M.r_amount)) s.M.requests in
      let reqs = List.sort (fun (b1, u1, _) (b2, u2, _) -> let c = Z.compare b1 b2 in if c <> 0 then c else compare u1 u2) reqs in
      List.iter (fun (b, u, a) -> emit "st.req %s %s %s" (Z.to_string b) (hex_of u) (s_n a)) reqs;
      List.iter (fun (_, (p : M.packet)) ->
        emit "st.pkt %s %s %s %s" (s_n p.M.p_seq) (s_coin p.M.p_coin) (s_str p.M.p_receiver) (s_pstatus p.M.p_status)) s.M.inflight;
      List.iter (fun (k, (w : M.waiting)) ->
        emit "st.wait %s %s %s" (s_n k) (s_coin w.M.w_coin) (s_str w.M.w_receiver)) s.M.waitq;
      emit "st.ver %s %s" (s_str (fst s.M.version)) (s_str (snd s.M.version))

let dump_tstore () =
  match !tstore with
  | None -> emit "ts.none"
  | Some s ->
      emit "ts.owner %s %s %s" (s_opt s_str s.M.t_admin) (s_opt s_str s.M.t_pending_owner) (s_opt s_n s.M.t_owner_min_time);
      emit "ts.cfg %s %s" (s_str s.M.t_trader) (s_routes s.M.t_routes);
      emit "ts.ver %s %s" (s_str (fst s.M.t_version)) (s_str (snd s.M.t_version))

let p_pstatus = function "sent" -> M.Sent | "ack_success" -> M.AckSuccess | "ack_failure" -> M.AckFailure | _ -> M.TimedOut
let p_lpkts t = List.map (fun x -> match String.split_on_char '/' x with
  | [a; b; c] -> (p_n a, { M.lp_seq = p_n a; lp_amount = p_n b; lp_status = p_pstatus c })
  | _ -> failwith "bad lpkt") (p_list (fun x -> x) t)
let p_lwaits t = List.map (fun x -> match String.split_on_char '/' x with
  | [a; b] -> (p_n a, p_n b) | _ -> failwith "bad lwait") (p_list (fun x -> x) t)

let dump_mstore () =
  match !mstore with
  | None -> ()
  | Some ms ->
      emit "mg.ver %s %s" (s_str ms.M.m_name) (s_str ms.M.m_version);
      let ol = s_opt (s_list s_str) in
      let lp pk wt =
        List.iter (fun (k, (p : M.lpacket)) -> emit "mg.lpkt %s %s %s %s" (s_n k) (s_n p.M.lp_seq) (s_n p.M.lp_amount) (s_pstatus p.M.lp_status)) pk;
        List.iter (fun (k, a) -> emit "mg.lwait %s %s" (s_n k) (s_n a)) wt in
      (match ms.M.m_layout with
       | M.L0418 (c, pk, wt) ->
           emit "mg.cfg0418 %s %s %s %s %s %s %s %s %s %s %s %s %s %s %s %s %s" (s_str c.M.a_native_denom) (s_str c.M.a_lst_denom) (s_str c.M.a_treasury)
             (ol c.M.a_operators) (ol c.M.a_monitors) (s_list s_str c.M.a_validators) (s_n c.M.a_batch_period) (s_n c.M.a_unbonding) (s_n c.M.a_fee)
             (s_str c.M.a_staker) (s_str c.M.a_collector) (s_n c.M.a_min) (s_str c.M.a_channel) (s_bool c.M.a_stopped)
             (s_opt s_str c.M.a_oracle_v1) (s_opt s_str c.M.a_oracle_v2) (s_opt s_str c.M.a_oracle);
           lp pk wt
       | M.L0420 (c, pk, wt) ->
           emit "mg.cfg0420 %s %s %s %s %s %s %s %s %s %s %s %s %s %s %s" (s_str c.M.b_native_denom) (s_str c.M.b_lst_denom) (s_str c.M.b_treasury)
             (ol c.M.b_monitors) (s_list s_str c.M.b_validators) (s_n c.M.b_batch_period) (s_n c.M.b_unbonding) (s_n c.M.b_fee)
             (s_str c.M.b_staker) (s_str c.M.b_collector) (s_n c.M.b_min) (s_str c.M.b_channel) (s_bool c.M.b_stopped)
             (s_opt s_str c.M.b_oracle) (s_bool c.M.b_send_fees);
           lp pk wt
       | M.L100 (c, pk, wt) -> dump_config c "mg."; lp pk wt
       | M.L110 (c, pk, wt) ->
           dump_config c "mg.";
           List.iter (fun (k, (p : M.packet)) -> emit "mg.pkt %s %s %s %s %s" (s_n k) (s_n p.M.p_seq) (s_coin p.M.p_coin) (s_str p.M.p_receiver) (s_pstatus p.M.p_status)) pk;
           List.iter (fun (k, (w : M.waiting)) -> emit "mg.wait %s %s %s" (s_n k) (s_coin w.M.w_coin) (s_str w.M.w_receiver)) wt);
      emit "mg.rest 777 555 3 2 x64617461"

let res_class = function M.Ok _ -> "ok" | M.Err _ -> "err" | M.Panic _ -> "panic"

let apply (r : (M.store * M.response) M.result) =
  emit "res %s" (res_class r);
  (match r with M.Ok (s, resp) -> store := Some s; emit_msgs resp | _ -> ());
  dump_store ()
let tapply (r : (M.tstore * M.response) M.result) =
  emit "res %s" (res_class r);
  (match r with M.Ok (s, resp) -> tstore := Some s; emit_msgs resp | _ -> ());
  dump_tstore ()

exception No_store
let need_store () = match !store with Some s -> s | None -> raise No_store

let s_batch_resp (b : M.batch_response) =
  Printf.sprintf "%s %s %s %s %s %s %s" (s_n b.M.br_id) (s_n b.M.br_total) (s_n b.M.br_expected) (s_n b.M.br_received)
    (s_n b.M.br_count) (s_n b.M.br_time_ns) (s_status b.M.br_status)

let parse_exec (toks : string list) : M.execute_msg =
  match toks with
  | ["stake"; a; b; c] -> M.LiquidStake (p_opt p_str a, p_opt p_bool b, p_opt p_n c)
  | ["unstake"] -> M.LiquidUnstake
  | ["submit"] -> M.SubmitBatch
  | ["withdraw"; id] -> M.Withdraw (p_n id)
  | ["addval"; v] -> M.AddValidator (p_str v)
  | ["rmval"; v] -> M.RemoveValidator (p_str v)
  | ["xfer_own"; o] -> M.TransferOwnership (p_str o)
  | ["accept_own"] -> M.AcceptOwnership
  | ["revoke_own"] -> M.RevokeOwnershipTransfer
  | ["updcfg"; n; p; f; m; bp] ->
      M.UpdateConfig (p_opt p_native n, p_opt p_protocol p, p_opt p_fee f, p_opt (p_list p_str) m, p_opt p_n bp)
  | ["rewards"] -> M.ReceiveRewards
  | ["unstaked"; id] -> M.ReceiveUnstakedTokens (p_n id)
  | ["breaker"] -> M.CircuitBreaker
  | ["resume"; n; l; r] -> M.ResumeContract (p_n n, p_n l, p_n r)
  | ["recover"; pg; sel; rcv] -> M.RecoverPendingIbcTransfers (p_opt p_bool pg, p_opt (p_list p_n) sel, p_opt p_str rcv)
  | ["feewd"; a] -> M.FeeWithdraw (p_n a)
  | _ -> failwith ("bad exec: " ^ String.concat " " toks)

let run_line (line : string) =
  let toks = List.filter (fun t -> t <> "") (String.split_on_char ' ' line) in
  try (match toks with
  | [] -> ()
  | t :: _ when String.length t > 0 && t.[0] = '#' -> ()
  | ["tx_begin"] -> tx_snap := Some !store; ttx_snap := Some !tstore
  | ["tx_commit"] -> tx_snap := None; ttx_snap := None
  | ["nocount"] ->
      (* the pending batch in the legacy layout without a request counter *)
      incr step;
      (match !store with Some s -> store := Some (M.c_legacy_uncounted s) | None -> ());
      emit "res ok"; dump_store ()
  | ["tx_abort"] ->
      (match !tx_snap with Some s -> store := s; tx_snap := None | None -> ());
      (match !ttx_snap with Some s -> tstore := s; ttx_snap := None | None -> ());
      emit "tx_abort"
  | "cfg" :: be :: self :: _ ->
      backend := (if be = "miniwasm" then M.Miniwasm else M.Osmosis);
      self_addr := p_str self
  | "inst" :: t :: sender :: a :: b :: c :: d :: e :: f :: g :: h :: i :: j :: k :: l :: m :: n :: o :: p :: q :: [] ->
      let msg = {
        M.im_native = { M.un_prefix = p_str a; un_valprefix = p_str b; un_denom = p_str c; un_validators = p_list p_str d;
                        un_unbonding = p_n e; un_staker = p_str f; un_collector = p_str g };
        im_protocol = { M.up_prefix = p_str h; up_denom = p_str i; up_channel = p_str j; up_min = p_n k; up_oracle = p_opt p_str l };
        im_fee = { M.uf_rate = p_n m; uf_treasury = p_opt p_str n };
        im_lst = p_str o; im_batch_period = p_n p; im_monitors = p_list p_str q } in
      let env = { M.now_ns = p_n t; txi = None; self = !self_addr } in
      let info = { M.sender = p_str sender; funds = [] } in
      incr step; apply (M.c_instantiate env info msg)
  | "exec" :: t :: txi :: sender :: funds :: rest ->
      let env = { M.now_ns = p_n t; txi = p_opt p_n txi; self = !self_addr } in
      let info = { M.sender = p_str sender; funds = p_list p_coin funds } in
      incr step; apply (M.c_execute (need_store ()) env info (parse_exec rest))
  | ["reply"; id; kind] ->
      let r = (match kind with "err" -> M.RErr | "nodata" -> M.RNoData | _ -> M.RBadData) in
      incr step; apply (M.c_reply (need_store ()) (p_n id) r)
  | ["reply"; id; "ok"; seq] -> incr step; apply (M.c_reply (need_store ()) (p_n id) (M.ROk (p_n seq)))
  | ["sudo"; "ack"; ch; seq; ok] -> incr step; apply (M.c_sudo (need_store ()) (M.SAck (p_str ch, p_n seq, p_bool ok)))
  | ["sudo"; "timeout"; ch; seq] -> incr step; apply (M.c_sudo (need_store ()) (M.STimeout (p_str ch, p_n seq)))
  | "query" :: rest ->
      incr step;
      let q = (match rest with
        | ["config"] -> M.QConfig | ["state"] -> M.QState | ["batch"; id] -> M.QBatch (p_n id)
        | ["batches"; sa; lim; stt] -> M.QBatches (p_opt p_n sa, p_opt p_n lim, p_opt p_status stt)
        | ["byids"; ids] -> M.QBatchesByIds (p_list p_n ids) | ["pending"] -> M.QPendingBatch
        | ["requests"; u] -> M.QUnstakeRequests (p_str u)
        | ["ibcq"; sa; lim] -> M.QIbcQueue (p_opt p_n sa, p_opt p_n lim)
        | ["replyq"; sa; lim] -> M.QIbcReplyQueue (p_opt p_n sa, p_opt p_n lim)
        | ["allreq"; sa; lim] -> M.QAllRequests (p_opt p_n sa, p_opt p_n lim)
        | ["allreq2"; sa; lim] -> M.QAllRequestsV2 (p_opt p_n sa, p_opt p_n lim)
        | _ -> failwith ("bad query: " ^ line)) in
      let r = M.c_query (need_store ()) q in
      emit "res %s" (res_class r);
      (match r with
       | M.Ok (M.RConfig c) -> dump_config c "q."
       | M.Ok (M.RState (n, l, rate, po, rw, fe)) ->
           emit "q.state %s %s %s %s %s %s" (s_n n) (s_n l) (s_n rate) (s_str po) (s_n rw) (s_n fe)
       | M.Ok (M.RBatch b) -> emit "q.batch %s" (s_batch_resp b)
       | M.Ok (M.RBatches bs) -> List.iter (fun b -> emit "q.batch %s" (s_batch_resp b)) bs
       | M.Ok (M.RRequests rs) ->
           List.iter (fun (r : M.request) -> emit "q.req %s %s %s" (s_n r.M.r_batch) (s_str r.M.r_user) (s_n r.M.r_amount)) rs
       | M.Ok (M.RIbcQueue ps) ->
           List.iter (fun (p : M.packet) -> emit "q.pkt %s %s %s %s" (s_n p.M.p_seq) (s_coin p.M.p_coin) (s_str p.M.p_receiver) (s_pstatus p.M.p_status)) ps
       | M.Ok (M.RReplyQueue ws) ->
           List.iter (fun (w : M.waiting) -> emit "q.wait %s %s" (s_coin w.M.w_coin) (s_str w.M.w_receiver)) ws
       | _ -> ())
  | "fn" :: rest ->
      incr step;
      (match rest with
       | ["mint"; a; b; c] -> emit "fn %s" (s_opt s_n (M.compute_mint (p_n a) (p_n b) (p_n c)))
       | ["unbond"; a; b; c] -> emit "fn %s" (s_opt s_n (M.compute_unbond (p_n a) (p_n b) (p_n c)))
       | ["derive"; a; b; c] -> emit "fn %s" (s_opt s_str (M.derive (p_str a) (p_str b) (p_str c)))
       | ["vprefix"; a] -> emit "fn %s" (s_opt s_str (M.validate_address_prefix (p_str a)))
       | ["vaddr"; a; b] -> emit "fn %s" (s_bool (M.valid_addr (p_str a) (p_str b)))
       | ["vdenom"; a] -> emit "fn %s" (s_opt s_str (M.validate_denom (p_str a)))
       | ["vibc"; a] -> emit "fn %s" (s_opt s_str (M.validate_ibc_denom (p_str a)))
       | ["vchan"; a] -> emit "fn %s" (s_bool (M.valid_channel (p_str a)))
       | ["apivalid"; a] -> emit "fn %s" (s_bool (M.api_valid (p_str a)))
       | ["sha256"; a] -> emit "fn %s" (s_str (M.bytes_str (M.sha256 (p_str a))))
       | ["b32dec"; a] ->
           emit "fn %s" (s_opt (fun ((h, d), c) -> Printf.sprintf "%s %s %s" (s_str h) (s_list s_n d) (s_n c)) (M.b32_decode (p_str a)))
       | _ -> failwith ("bad fn: " ^ line))
  | "leg0418" :: a :: b :: c :: d :: e :: f :: g :: h :: i :: j :: k :: l :: m :: n :: o :: p :: q :: pk :: wt :: [] ->
      incr step;
      let cfg = { M.a_native_denom = p_str a; a_lst_denom = p_str b; a_treasury = p_str c; a_operators = p_opt (p_list p_str) d;
                  a_monitors = p_opt (p_list p_str) e; a_validators = p_list p_str f; a_batch_period = p_n g; a_unbonding = p_n h;
                  a_fee = p_n i; a_staker = p_str j; a_collector = p_str k; a_min = p_n l; a_channel = p_str m; a_stopped = p_bool n;
                  a_oracle_v1 = p_opt p_str o; a_oracle_v2 = p_opt p_str p; a_oracle = p_opt p_str q } in
      mstore := Some { M.m_name = cstr "staking"; m_version = cstr "0.0.0"; m_layout = M.L0418 (cfg, p_lpkts pk, p_lwaits wt) };
      emit "res ok"; dump_mstore ()
  | "leg0420" :: a :: b :: c :: e :: f :: g :: h :: i :: j :: k :: l :: m :: n :: q :: sf :: pk :: wt :: [] ->
      incr step;
      let cfg = { M.b_native_denom = p_str a; b_lst_denom = p_str b; b_treasury = p_str c;
                  b_monitors = p_opt (p_list p_str) e; b_validators = p_list p_str f; b_batch_period = p_n g; b_unbonding = p_n h;
                  b_fee = p_n i; b_staker = p_str j; b_collector = p_str k; b_min = p_n l; b_channel = p_str m; b_stopped = p_bool n;
                  b_oracle = p_opt p_str q; b_send_fees = p_bool sf } in
      mstore := Some { M.m_name = cstr "staking"; m_version = cstr "0.0.0"; m_layout = M.L0420 (cfg, p_lpkts pk, p_lwaits wt) };
      emit "res ok"; dump_mstore ()
  | ["leg100"; n; p; f; lst; mons; bp; stp; pk; wt] ->
      incr step;
      let nn = (match p_rec n with
        | [a; b; c; d; e; f; g] -> { M.nc_prefix = p_str a; nc_valprefix = p_str b; nc_denom = p_str c; nc_validators = p_list p_str d;
                                     nc_unbonding = p_n e; nc_staker = p_str f; nc_collector = p_str g }
        | _ -> failwith "bad native") in
      let pp = (match p_rec p with
        | [a; b; c; d; e] -> { M.pc_prefix = p_str a; pc_denom = p_str b; pc_channel = p_str c; pc_min = p_n d; pc_oracle = p_opt p_str e }
        | _ -> failwith "bad protocol") in
      let ff = (match p_rec f with [a; b] -> { M.fee_rate = p_n a; fee_treasury = p_opt p_str b } | _ -> failwith "bad fee") in
      let cfg = { M.native = nn; protocol = pp; fees = ff; lst_denom = p_str lst; monitors = p_list p_str mons;
                  batch_period = p_n bp; stopped = p_bool stp } in
      mstore := Some { M.m_name = cstr "staking"; m_version = cstr "0.0.0"; m_layout = M.L100 (cfg, p_lpkts pk, p_lwaits wt) };
      emit "res ok"; dump_mstore ()
  | ["tx_begin_m"] -> msnap := !mstore
  | ["tx_abort_m"] -> mstore := !msnap
  | ["setver"; name; ver] ->
      (match !mstore with Some ms -> mstore := Some { ms with M.m_name = p_str name; m_version = p_str ver } | None -> ())
  | "mig" :: rest ->
      incr step;
      let msg = (match rest with
        | ["v0418"; sf] -> M.MV0418 (p_bool sf)
        | ["v0420"; a; b; c; d] -> M.MV0420 (p_str a, p_str b, p_str c, p_str d)
        | _ -> M.MV100) in
      (match !mstore with
       | Some ms ->
           let r = M.c_migrate ms msg in
           emit "res %s" (res_class r);
           (match r with
            | M.Ok ms' ->
                let changed = (match ms'.M.m_layout with
                  | M.L110 (_, pk, wt) -> ["contract_info"] @ (if wt <> [] then ["ibc_waiting_for_reply"] else []) @ (if pk <> [] then ["inflight"] else [])
                  | _ -> ["config"; "contract_info"]) in
                emit "mg.changed %s" (s_list hex_of changed);
                mstore := Some ms'
            | _ -> emit "mg.changed []");
           dump_mstore ()
       | None -> failwith "no mstore")
  | ["tinst"; t; sender; a; tr; routes] ->
      let env = { M.t_now_ns = p_n t; t_self = !self_addr } in
      incr step;
      tapply (M.c_tinstantiate env (p_str sender) { M.ti_admin = p_opt p_str a; ti_trader = p_opt p_str tr; ti_routes = p_routes routes })
  | "texec" :: t :: sender :: rest ->
      let env = { M.t_now_ns = p_n t; t_self = !self_addr } in
      let m = (match rest with
        | ["xfer_own"; o] -> M.TTransferOwnership (p_str o)
        | ["accept_own"] -> M.TAcceptOwnership
        | ["revoke_own"] -> M.TRevokeOwnershipTransfer
        | ["spend"; c; r; ch] -> M.TSpendFunds (p_coin c, p_str r, p_opt p_str ch)
        | ["swapin"; r; c; m] -> M.TSwapExactAmountIn (p_route r, p_coin c, p_n m)
        | ["swapout"; r; c; m] -> M.TSwapExactAmountOut (p_route r, p_coin c, p_n m)
        | ["updcfg"; tr; rs] -> M.TUpdateConfig (p_opt p_str tr, p_opt p_routes rs)
        | _ -> failwith ("bad texec: " ^ line)) in
      incr step;
      (match !tstore with Some s -> tapply (M.c_texecute s env (p_str sender) m) | None -> emit "res err"; emit "ts.none")
  | ["tquery"] ->
      incr step;
      (match !tstore with
       | Some s ->
           let r = M.c_tquery s in
           emit "res %s" (res_class r);
           (match r with M.Ok ((a, t), rs) -> emit "q.tcfg %s %s %s" (s_str a) (s_str t) (s_routes rs) | _ -> ())
       | None -> emit "res err")
  | ["tmig"; name; ver] ->
      incr step;
      (match !tstore with
       | Some s ->
           let s' = { s with M.t_version = (p_str name, p_str ver) } in
           tstore := Some s';
           tapply (M.tmigrate s')
       | None -> emit "res err"; emit "ts.none")
  | _ -> failwith ("unknown op: " ^ line))
  with No_store ->
    (* a call into a contract that was never instantiated: the real entry point fails on its first load *)
    emit "res err";
    (match toks with ("exec" | "reply" | "sudo") :: _ -> emit "st.none" | _ -> ())

let () =
  let inp = if Array.length Sys.argv > 1 then open_in Sys.argv.(1) else stdin in
  if Array.length Sys.argv > 2 then out := open_out Sys.argv.(2);
  (try
     while true do
       let line = input_line inp in
       (* a new history starts at every cfg line: reset *)
       if String.length line >= 4 && String.sub line 0 4 = "cfg " then begin
         store := None; tstore := None; mstore := None; step := 0;
         output_string !out ("== " ^ line ^ "\n")
       end;
       run_line line
     done
   with End_of_file -> ());
  close_out !out
